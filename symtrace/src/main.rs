//! symtrace: run the real, generic feos model code on a symbolic number type and dump the
//! expression DAG (mode "sym"), or run exactly the same job natively on f64 (mode "f64", replay).
//!
//! usage: symtrace <job.json>        (job description, see jobs.rs)
mod jobs;
mod models;
mod sym;

use serde_json::{json, Value};
use std::fmt::Write;
use sym::*;

fn dump(path: &str, rels: &[jobs::Rel<Sym>], vars: &[(u32, String, f64)], extra: &Value) {
    let (nodes, re_calls, ops) = ARENA.with(|a| {
        let a = a.borrow();
        (a.nodes.clone(), a.re_calls.clone(), a.ops)
    });
    let mut s = String::new();
    writeln!(s, "meta {}", extra).unwrap();
    writeln!(s, "ops {}", ops).unwrap();
    for (i, name, w) in vars {
        writeln!(s, "varname {} {} {:?}", i, name, w).unwrap();
    }
    for (i, n) in nodes.iter().enumerate() {
        match *n {
            Node::Const(b) => writeln!(s, "{} const {:?}", i, f64::from_bits(b)).unwrap(),
            Node::Var(v) => writeln!(s, "{} var {}", i, v).unwrap(),
            Node::Add(a, b) => writeln!(s, "{} add {} {}", i, a, b).unwrap(),
            Node::Sub(a, b) => writeln!(s, "{} sub {} {}", i, a, b).unwrap(),
            Node::Mul(a, b) => writeln!(s, "{} mul {} {}", i, a, b).unwrap(),
            Node::Div(a, b) => writeln!(s, "{} div {} {}", i, a, b).unwrap(),
            Node::Neg(a) => writeln!(s, "{} neg {}", i, a).unwrap(),
            Node::Powi(a, n) => writeln!(s, "{} powi {} {}", i, a, n).unwrap(),
            Node::Powf(a, b) => writeln!(s, "{} powf {} {:?}", i, a, f64::from_bits(b)).unwrap(),
            Node::Un(name, a) => writeln!(s, "{} un {} {}", i, a, name).unwrap(),
        }
    }
    for r in rels {
        writeln!(s, "out {} {} {} {} {:?} {:?}", r.a.id, r.b.id, r.d, r.name.replace(' ', "_"), r.a.re, r.b.re).unwrap();
    }
    for r in re_calls {
        writeln!(s, "recall {}", r).unwrap();
    }
    std::fs::write(path, s).unwrap();
}

fn main() {
    let path = std::env::args().nth(1).expect("job file");
    let job: Value = serde_json::from_str(&std::fs::read_to_string(&path).unwrap()).unwrap();
    let mode = job["mode"].as_str().unwrap_or("sym");
    let x: Vec<f64> = job["x"].as_array().expect("x").iter().map(|v| v.as_f64().unwrap()).collect();
    match mode {
        "sym" => {
            sym::reset();
            let names = jobs::var_names(x.len());
            let xs: Vec<Sym> = x.iter().enumerate().map(|(i, &w)| var(i as u32, w)).collect();
            let x2: Option<Vec<Sym>> = job["x2"].as_array().map(|a| a.iter().enumerate().map(|(i, v)| var(i as u32, v.as_f64().unwrap())).collect());
            let (rels, extra) = jobs::run::<Sym>(&job, &xs, x2.as_deref());
            let vars: Vec<_> = x.iter().enumerate().map(|(i, &w)| (i as u32, names[i].clone(), w)).collect();
            dump(job["out"].as_str().expect("out"), &rels, &vars, &extra);
            let (nn, ops, re) = ARENA.with(|a| {
                let a = a.borrow();
                (a.nodes.len(), a.ops, a.re_calls.len())
            });
            println!("{}", json!({"nodes": nn, "ops": ops, "re_calls": re, "rels": rels.len()}));
        }
        "f64" => {
            let x2: Option<Vec<f64>> = job["x2"].as_array().map(|a| a.iter().map(|v| v.as_f64().unwrap()).collect());
            let (rels, extra) = jobs::run::<f64>(&job, &x, x2.as_deref());
            let out: Vec<Value> = rels.iter().map(|r| json!({"name": r.name, "a": r.a, "b": r.b, "d": r.d})).collect();
            println!("{}", json!({"rels": out, "extra": extra}));
        }
        m => panic!("mode {m}"),
    }
}
