//! Jobs: each builds real feos models and runs the real generic Helmholtz-energy code twice
//! (or more), returning pairs of results together with the relation claimed between them:
//! `b = lam^d * a`.  Generic over the base number type B (Sym: symbolic trace, f64: native replay).
//!
//! Input vector x: x[0] = T, x[1] = V, x[2] = lam (scale factor / auxiliary), x[3..] = N_i.
use crate::models::{build, build_ideal, Model};
use feos_core::StateHD;
use ndarray::{Array1, ScalarOperand};
use num_dual::{Dual, Dual2, Dual3, DualNum, HyperDual};
use serde_json::{json, Value};

pub struct Rel<B> {
    pub name: String,
    pub a: B,
    pub b: B,
    pub d: i32,
}

pub trait Base: DualNum<f64> + Copy + ScalarOperand + 'static {}
impl<T: DualNum<f64> + Copy + ScalarOperand + 'static> Base for T {}

pub fn var_names(n: usize) -> Vec<String> {
    (0..n)
        .map(|i| match i {
            0 => "T".into(),
            1 => "V".into(),
            2 => "lam".into(),
            k => format!("N{}", k - 3),
        })
        .collect()
}

fn usv(v: &Value) -> Vec<usize> {
    v.as_array().map(|a| a.iter().map(|x| x.as_u64().unwrap() as usize).collect()).unwrap_or_default()
}

fn pairwise<B: Base>(tag: &str, c1: Vec<(String, B)>, c2: Vec<(String, B)>, d: i32, rels: &mut Vec<Rel<B>>) {
    assert_eq!(c1.len(), c2.len(), "contribution lists differ in length");
    for ((n1, a), (n2, b)) in c1.into_iter().zip(c2) {
        assert_eq!(n1, n2, "contribution names differ");
        rels.push(Rel { name: format!("{tag}{n1}"), a, b, d });
    }
}

fn total<B: Base>(c: &[(String, B)]) -> B {
    c.iter().fold(B::zero(), |acc, (_, a)| acc + *a)
}

/// derivative seeds for the `ext` job with dual numbers: which input gets eps = 1
#[derive(Clone, Copy, PartialEq)]
enum Seed {
    T,
    V,
    N(usize),
}
impl Seed {
    fn parse(s: &str) -> Seed {
        match s {
            "T" => Seed::T,
            "V" => Seed::V,
            n => Seed::N(n[1..].parse().unwrap()),
        }
    }
    /// homogeneity degree contributed by a derivative in this direction
    fn deg(&self) -> i32 {
        match self {
            Seed::T => 0,
            _ => -1,
        }
    }
}

fn state_with<B: Base, D: DualNum<f64> + Copy + ScalarOperand>(
    t: B,
    v: B,
    n: &[B],
    lift: impl Fn(B, Seed) -> D,
) -> StateHD<D> {
    let nn: Array1<D> = n.iter().enumerate().map(|(i, &x)| lift(x, Seed::N(i))).collect();
    StateHD::new(lift(t, Seed::T), lift(v, Seed::V), nn)
}

pub fn run<B: Base>(job: &Value, x: &[B], x2: Option<&[B]>) -> (Vec<Rel<B>>, Value) {
    let name = job["job"].as_str().expect("job");
    let (t, v, lam) = (x[0], x[1], x[2]);
    let n: Vec<B> = x[3..].to_vec();
    let mut rels = Vec::new();
    let mut extra = json!({});
    match name {
        // C02 / C01-c: A(T, lam V, lam N) = lam A(T, V, N); derivative parts with their degrees
        "ext" => {
            let m = build(&job["model"]);
            assert_eq!(m.components(), n.len());
            let ln: Vec<B> = n.iter().map(|&x| lam * x).collect();
            match job["dual"].as_str().unwrap_or("none") {
                "none" => {
                    let c1 = m.contribs(&StateHD::new(t, v, Array1::from(n.clone())));
                    let c2 = m.contribs(&StateHD::new(t, lam * v, Array1::from(ln)));
                    pairwise("", c1, c2, 1, &mut rels);
                }
                "first" => {
                    let s = Seed::parse(job["seed"][0].as_str().unwrap());
                    let lift = |x: B, w: Seed| {
                        let mut d = Dual::<B, f64>::from_re(x);
                        if w == s {
                            d.eps = B::one();
                        }
                        d
                    };
                    let c1 = m.contribs(&state_with(t, v, &n, lift));
                    let c2 = m.contribs(&state_with(t, lam * v, &ln, lift));
                    let e = |c: Vec<(String, Dual<B, f64>)>| c.into_iter().map(|(n, d)| (n, d.eps)).collect();
                    pairwise(&format!("d{}:", job["seed"][0].as_str().unwrap()), e(c1), e(c2), 1 + s.deg(), &mut rels);
                }
                "second" => {
                    let s1 = Seed::parse(job["seed"][0].as_str().unwrap());
                    let s2 = Seed::parse(job["seed"][1].as_str().unwrap());
                    let lift = |x: B, w: Seed| {
                        let mut d = HyperDual::<B, f64>::from_re(x);
                        if w == s1 {
                            d.eps1 = B::one();
                        }
                        if w == s2 {
                            d.eps2 = B::one();
                        }
                        d
                    };
                    let c1 = m.contribs(&state_with(t, v, &n, lift));
                    let c2 = m.contribs(&state_with(t, lam * v, &ln, lift));
                    let e = |c: Vec<(String, HyperDual<B, f64>)>| c.into_iter().map(|(n, d)| (n, d.eps1eps2)).collect();
                    let tag = format!("d{}d{}:", job["seed"][0].as_str().unwrap(), job["seed"][1].as_str().unwrap());
                    pairwise(&tag, e(c1), e(c2), 1 + s1.deg() + s2.deg(), &mut rels);
                }
                "third" => {
                    // one direction, third order (d2p/dV2, d2S/dT2)
                    let s = Seed::parse(job["seed"][0].as_str().unwrap());
                    let lift = |x: B, w: Seed| {
                        let mut d = Dual3::<B, f64>::from_re(x);
                        if w == s {
                            d.v1 = B::one();
                        }
                        d
                    };
                    let c1 = m.contribs(&state_with(t, v, &n, lift));
                    let c2 = m.contribs(&state_with(t, lam * v, &ln, lift));
                    let e = |c: Vec<(String, Dual3<B, f64>)>| c.into_iter().map(|(n, d)| (n, d.v3)).collect();
                    pairwise(&format!("d3{}:", job["seed"][0].as_str().unwrap()), e(c1), e(c2), 1 + 3 * s.deg(), &mut rels);
                }
                o => panic!("dual {o}"),
            }
        }
        // C09-1: permuted model at permuted amounts
        "perm" => {
            let m1 = build(&job["model"]);
            let m2 = build(&job["model2"]);
            let p = usv(&job["model2"]["idx"]);
            let n2: Vec<B> = p.iter().map(|&i| n[i]).collect();
            let c1 = m1.contribs(&StateHD::new(t, v, Array1::from(n.clone())));
            let c2 = m2.contribs(&StateHD::new(t, v, Array1::from(n2.clone())));
            pairwise("", c1, c2, 0, &mut rels);
            if job["dual"].as_str() == Some("first") {
                // chemical-potential parts: d/dN_{p[k]} of model 1 equals d/dN_k of model 2
                for k in 0..p.len() {
                    let l1 = |x: B, w: Seed| {
                        let mut d = Dual::<B, f64>::from_re(x);
                        if w == Seed::N(p[k]) {
                            d.eps = B::one();
                        }
                        d
                    };
                    let l2 = |x: B, w: Seed| {
                        let mut d = Dual::<B, f64>::from_re(x);
                        if w == Seed::N(k) {
                            d.eps = B::one();
                        }
                        d
                    };
                    let a = total(&m1.contribs(&state_with(t, v, &n, l1))).eps;
                    let b = total(&m2.contribs(&state_with(t, v, &n2, l2))).eps;
                    rels.push(Rel { name: format!("mu[{}]~mu'[{}]", p[k], k), a, b, d: 0 });
                }
            }
        }
        // C09-2/4: zero-padded full model vs sub-model (Components::subset, or direct build via idx)
        "pad" => {
            let m1 = build(&job["model"]);
            let m2 = build(&job["model2"]);
            let keep = usv(&job["keep"]);
            let full: Vec<B> = (0..n.len()).map(|i| if keep.contains(&i) { n[i] } else { B::from(0.0) }).collect();
            let sub: Vec<B> = keep.iter().map(|&i| n[i]).collect();
            let c1 = m1.contribs(&StateHD::new(t, v, Array1::from(full)));
            let c2 = m2.contribs(&StateHD::new(t, v, Array1::from(sub)));
            // match by name: a contribution that only one of the models has must vanish
            for (n1, a) in &c1 {
                match c2.iter().find(|(n2, _)| n2 == n1) {
                    Some((_, b)) => rels.push(Rel { name: n1.clone(), a: *a, b: *b, d: 0 }),
                    None => rels.push(Rel { name: format!("{n1}:absent_in_submodel"), a: *a, b: B::from(0.0), d: 0 }),
                }
            }
            for (n2, b) in &c2 {
                if !c1.iter().any(|(n1, _)| n1 == n2) {
                    rels.push(Rel { name: format!("{n2}:absent_in_full_model"), a: B::from(0.0), b: *b, d: 0 });
                }
            }
        }
        // C09-4 (and C08 pairs): two models, same state
        "pair" => {
            let m1 = build(&job["model"]);
            let m2 = build(&job["model2"]);
            let c1 = m1.contribs(&StateHD::new(t, v, Array1::from(n.clone())));
            let c2 = m2.contribs(&StateHD::new(t, v, Array1::from(n.clone())));
            extra = json!({"names1": c1.iter().map(|c| c.0.clone()).collect::<Vec<_>>(), "names2": c2.iter().map(|c| c.0.clone()).collect::<Vec<_>>()});
            if job["match"].as_str() == Some("contrib") {
                pairwise("", c1.clone(), c2.clone(), 0, &mut rels);
            } else if let Some(groups) = job["groups"].as_array() {
                // [[name, [i...], [j...]], ...]: sums of contributions that correspond
                for g in groups {
                    let a = usv(&g[1]).iter().fold(B::zero(), |acc, &i| acc + c1[i].1);
                    let b = usv(&g[2]).iter().fold(B::zero(), |acc, &j| acc + c2[j].1);
                    rels.push(Rel { name: g[0].as_str().unwrap().to_string(), a, b, d: 0 });
                }
            }
            rels.push(Rel { name: "total".into(), a: total(&c1), b: total(&c2), d: 0 });
        }
        // C09-3: component `a` entered twice (amounts N_a', N_a'') vs once (N_a' + N_a'')
        "split" => {
            let m1 = build(&job["model"]);
            let m2 = build(&job["model2"]);
            let idx = usv(&job["model2"]["idx"]); // e.g. [0, 0, 1]
            assert_eq!(idx.len(), n.len());
            let n2 = n.clone();
            let mut n1 = vec![B::zero(); m1.components()];
            for (k, &i) in idx.iter().enumerate() {
                n1[i] = n1[i] + n[k];
            }
            let c1 = m1.contribs(&StateHD::new(t, v, Array1::from(n1)));
            let c2 = m2.contribs(&StateHD::new(t, v, Array1::from(n2)));
            pairwise("", c1, c2, 0, &mut rels);
        }
        // C01-b: same model traced at a second witness (x2): the traces must denote the same function
        "twowit" => {
            let m = build(&job["model"]);
            let x2 = x2.expect("x2");
            let c1 = m.contribs(&StateHD::new(t, v, Array1::from(n.clone())));
            let c2 = m.contribs(&StateHD::new(x2[0], x2[1], Array1::from(x2[3..].to_vec())));
            pairwise("", c1, c2, 0, &mut rels);
        }
        // C13: virial seeding at zero density (as `second_virial_coefficient` builds it) vs the same
        // dual part on the finite-density path; x[1] is the density rho here, molefracs from job
        "virial" => {
            let m = build(&job["model"]);
            let xf: Vec<f64> = job["molefracs"].as_array().unwrap().iter().map(|v| v.as_f64().unwrap()).collect();
            let rho = v;
            let order = job["order"].as_u64().unwrap_or(2);
            if order == 2 {
                let mk = |r: B| -> StateHD<HyperDual<B, f64>> {
                    let mut rr = HyperDual::<B, f64>::from_re(r);
                    rr.eps1 = B::one();
                    rr.eps2 = B::one();
                    virial_state(HyperDual::from_re(t), rr, &xf)
                };
                let c0 = m.contribs(&mk(B::from(0.0)));
                let c1 = m.contribs(&mk(rho));
                for ((n0, a), (_, b)) in c0.into_iter().zip(c1) {
                    rels.push(Rel { name: format!("B:{n0}"), a: a.eps1eps2 * 0.5, b: b.eps1eps2 * 0.5, d: 0 });
                }
            } else {
                let mk = |r: B| -> StateHD<Dual3<B, f64>> {
                    let mut rr = Dual3::<B, f64>::from_re(r);
                    rr.v1 = B::one();
                    virial_state(Dual3::from_re(t), rr, &xf)
                };
                let c0 = m.contribs(&mk(B::from(0.0)));
                let c1 = m.contribs(&mk(rho));
                for ((n0, a), (_, b)) in c0.into_iter().zip(c1) {
                    rels.push(Rel { name: format!("C:{n0}"), a: a.v3 / 3.0, b: b.v3 / 3.0, d: 0 });
                }
            }
        }
        // C10-b: ideal-gas heat capacity from the second temperature derivative of A_ig
        "ideal_cp" => {
            let ig = build_ideal(&job["model"]);
            let lift = |x: B, w: Seed| {
                let mut d = Dual2::<B, f64>::from_re(x);
                if w == Seed::T {
                    d.v1 = B::one();
                }
                d
            };
            let st = state_with(t, v, &n, lift);
            // A_ig = T * (beta A_ig); c_v^ig / R = -T A_TT / (N R) with A in units of k_B T.. (reduced: R = 1)
            let a = ig.helmholtz(&st) * st.temperature;
            let ntot = n.iter().fold(B::zero(), |acc, &x| acc + x);
            let cv = -(t * a.v2) / ntot;
            // spec: the published correlation, mole-fraction averaged: c_v^ig / R = sum_i x_i c_p,i(T) / R - 1
            // (coefficients and the model's gas constant come from the job description, not from the library)
            let rgas = job["rgas"].as_f64().expect("rgas");
            let recs: Vec<Vec<f64>> = job["model"]["syn"].as_array().expect("syn").iter().map(|r| r.as_array().unwrap().iter().map(|x| x.as_f64().unwrap()).collect()).collect();
            let skip = job["skip"].as_u64().unwrap_or(0) as usize; // DIPPR records carry the equation number first
            let mut spec = B::zero();
            for (i, r) in recs.iter().enumerate() {
                let eq = if skip == 1 { r[0] as i32 } else { 0 };
                let c = &r[skip..];
                let cp = match eq {
                    // DIPPR 107 (Aly-Lee): a + b (c/T / sinh(c/T))^2 + d (e/T / cosh(e/T))^2
                    107 => {
                        let ct = B::from(c[2]) / t;
                        let et = B::from(c[4]) / t;
                        (ct / ct.sinh()).powi(2) * c[1] + (et / et.cosh()).powi(2) * c[3] + c[0]
                    }
                    // DIPPR 127: a + sum_k B_k (C_k/T)^2 exp(C_k/T) / (exp(C_k/T) - 1)^2
                    127 => {
                        let fun = |p: f64| {
                            let x = B::from(p) / t;
                            x * x * x.exp() / (x.exp() - 1.0).powi(2)
                        };
                        fun(c[2]) * c[1] + fun(c[4]) * c[3] + fun(c[6]) * c[5] + c[0]
                    }
                    // Joback / DIPPR 100: polynomial
                    _ => {
                        let mut cp = B::zero();
                        let mut tk = B::one();
                        for ck in c {
                            cp = cp + tk * *ck;
                            tk = tk * t;
                        }
                        cp
                    }
                };
                spec = spec + n[i] / ntot * cp;
            }
            let spec = spec / rgas - 1.0;
            rels.push(Rel { name: "cv_ig/R~correlation".into(), a: spec, b: cv, d: 0 });
        }
        // C10-c: ideal mixing: A_ig(T,V,N) = sum_i A_ig^{pure i}(T,V,N_i)
        "ideal_mix" => {
            let ig = build_ideal(&job["model"]);
            let a_mix = ig.helmholtz(&StateHD::new(t, v, Array1::from(n.clone())));
            let mut a_sum = B::zero();
            for i in 0..n.len() {
                let pure = ig.subset(&[i]);
                a_sum = a_sum + pure.helmholtz(&StateHD::new(t, v, Array1::from(vec![n[i]])));
            }
            rels.push(Rel { name: "A_ig:mix~sum_pure".into(), a: a_sum, b: a_mix, d: 0 });
            // and extensivity of the ideal part
            let ln: Vec<B> = n.iter().map(|&x| lam * x).collect();
            let a2 = ig.helmholtz(&StateHD::new(t, lam * v, Array1::from(ln)));
            rels.push(Rel { name: "A_ig:ext".into(), a: a_mix, b: a2, d: 1 });
        }
        // native confirmation for C01-b: analytic first derivative (dual part) vs central difference of the
        // library's own value, per contribution, direction job["seed"][0]
        "fd" => {
            let m = build(&job["model"]);
            let seeds: Vec<Seed> = job["seed"].as_array().unwrap().iter().map(|x| Seed::parse(x.as_str().unwrap())).collect();
            let label: String = job["seed"].as_array().unwrap().iter().map(|x| format!("d{}", x.as_str().unwrap())).collect();
            let s = *seeds.last().unwrap(); // direction of the finite difference
            let h = job["h"].as_f64().unwrap_or(1e-6);
            let point = |f: f64| -> (B, B, Vec<B>) {
                let mut t2 = t;
                let mut v2 = v;
                let mut n2 = n.clone();
                match s {
                    Seed::T => t2 = t * (1.0 + f * h),
                    Seed::V => v2 = v * (1.0 + f * h),
                    Seed::N(i) => n2[i] = n[i] * (1.0 + f * h),
                }
                (t2, v2, n2)
            };
            let x0 = match s {
                Seed::T => t,
                Seed::V => v,
                Seed::N(i) => n[i],
            };
            match seeds.len() {
                // first order: dual part vs central difference of the library's own value
                1 => {
                    let lift = |x: B, w: Seed| {
                        let mut d = Dual::<B, f64>::from_re(x);
                        if w == s {
                            d.eps = B::one();
                        }
                        d
                    };
                    let c = m.contribs(&state_with(t, v, &n, lift));
                    let val = |f: f64| -> Vec<(String, B)> {
                        let (t2, v2, n2) = point(f);
                        m.contribs(&StateHD::new(t2, v2, Array1::from(n2)))
                    };
                    let (cp, cm) = (val(1.0), val(-1.0));
                    for (k, (name, d)) in c.into_iter().enumerate() {
                        let fd = (cp[k].1 - cm[k].1) / (x0 * (2.0 * h));
                        rels.push(Rel { name: format!("{label}:{name}"), a: fd, b: d.eps, d: 0 });
                    }
                }
                // second order (pure or mixed): hyper-dual part vs central difference of the first-order dual part
                2 => {
                    let s1 = seeds[0];
                    let lift = |x: B, w: Seed| {
                        let mut d = HyperDual::<B, f64>::from_re(x);
                        if w == s1 {
                            d.eps1 = B::one();
                        }
                        if w == s {
                            d.eps2 = B::one();
                        }
                        d
                    };
                    let c = m.contribs(&state_with(t, v, &n, lift));
                    let first = |f: f64| -> Vec<(String, Dual<B, f64>)> {
                        let (t2, v2, n2) = point(f);
                        m.contribs(&state_with(t2, v2, &n2, |x: B, w: Seed| {
                            let mut d = Dual::<B, f64>::from_re(x);
                            if w == s1 {
                                d.eps = B::one();
                            }
                            d
                        }))
                    };
                    let (cp, cm) = (first(1.0), first(-1.0));
                    for (k, (name, d)) in c.into_iter().enumerate() {
                        let fd = (cp[k].1.eps - cm[k].1.eps) / (x0 * (2.0 * h));
                        rels.push(Rel { name: format!("{label}:{name}"), a: fd, b: d.eps1eps2, d: 0 });
                    }
                }
                // third order (pure): Dual3 part vs central difference of the Dual2 second derivative
                _ => {
                    let lift = |x: B, w: Seed| {
                        let mut d = Dual3::<B, f64>::from_re(x);
                        if w == s {
                            d.v1 = B::one();
                        }
                        d
                    };
                    let c = m.contribs(&state_with(t, v, &n, lift));
                    let second = |f: f64| -> Vec<(String, Dual2<B, f64>)> {
                        let (t2, v2, n2) = point(f);
                        m.contribs(&state_with(t2, v2, &n2, |x: B, w: Seed| {
                            let mut d = Dual2::<B, f64>::from_re(x);
                            if w == s {
                                d.v1 = B::one();
                            }
                            d
                        }))
                    };
                    let (cp, cm) = (second(1.0), second(-1.0));
                    for (k, (name, d)) in c.into_iter().enumerate() {
                        let fd = (cp[k].1.v2 - cm[k].1.v2) / (x0 * (2.0 * h));
                        rels.push(Rel { name: format!("{label}:{name}"), a: fd, b: d.v3, d: 0 });
                    }
                }
            }
        }
        // C08-6: Peng-Robinson pressure (as the library differentiates it: -d(A_res)/dV through Dual numbers)
        // vs the textbook closed form p = RT/(v-b) - a/(v^2+2bv-b^2), written independently below
        "pr_textbook" => {
            let m = build(&job["model"]);
            let lift = |x: B, w: Seed| {
                let mut d = Dual::<B, f64>::from_re(x);
                if w == Seed::V {
                    d.eps = B::one();
                }
                d
            };
            let st = state_with(t, v, &n, lift);
            let a = total(&m.contribs(&st)) * st.temperature;
            let p_code = -a.eps;
            let spec = &job["model"]["syn"];
            let recs: Vec<Vec<f64>> = spec.as_array().unwrap().iter().map(|r| r.as_array().unwrap().iter().map(|x| x.as_f64().unwrap()).collect()).collect();
            let kij = job["model"]["bin"].as_f64().unwrap_or(0.0);
            let p_text = pr_textbook_pressure(&recs, kij, t, v, &n);
            rels.push(Rel { name: "p_res:Peng_Robinson~textbook".into(), a: p_text, b: p_code, d: 0 });
        }
        j => panic!("unknown job {j}"),
    }
    let _ = Model::components;
    (rels, extra)
}

/// Mirror of `StateHD::new_virial` (pub(crate) in feos-core); the checker verifies on every run
/// that the mirrored source lines are unchanged.
fn virial_state<D: DualNum<f64> + Copy>(temperature: D, density: D, molefracs: &[f64]) -> StateHD<D> {
    let molefracs = Array1::from(molefracs.to_vec());
    let volume = D::one();
    let partial_density = molefracs.mapv(|x| density * x);
    let moles = partial_density.mapv(|pd| pd * volume);
    let molefracs = molefracs.mapv(D::from);
    StateHD { temperature, volume, moles, molefracs, partial_density }
}

/// Textbook Peng-Robinson (Peng & Robinson 1976) residual pressure in reduced units (K / A^3):
///   p = N k_B T/(V - B) - A/(V^2 + 2 B V - B^2),  p_res = p - N k_B T / V
///   a_i = 0.45724 R^2 Tc^2/pc * alpha_i(T),  b_i = 0.07780 R Tc/pc,
///   alpha_i = (1 + kappa_i (1 - sqrt(T/Tc)))^2,  kappa_i = 0.37464 + 1.54226 w - 0.26992 w^2
///   A = sum_ij N_i N_j sqrt(a_i a_j) (1 - k_ij),  B = sum_i N_i b_i
/// records: [Tc/K, pc/Pa, omega, ...]; 1 Pa = 1e-30/k_B K/A^3
fn pr_textbook_pressure<B: Base>(recs: &[Vec<f64>], kij: f64, t: B, v: B, n: &[B]) -> B {
    const KB: f64 = 1.380649e-23;
    let ntot = n.iter().fold(B::zero(), |a, &x| a + x);
    let mut bb = B::zero();
    let mut ai = Vec::new();
    for (i, r) in recs.iter().enumerate() {
        let (tc, pc, w) = (r[0], r[1] * 1e-30 / KB, r[2]);
        let kappa = 0.37464 + 1.54226 * w - 0.26992 * w * w;
        let alpha = ((B::one() - (t / tc).sqrt()) * kappa + 1.0).powi(2);
        ai.push(alpha * (0.45724 * tc * tc / pc));
        bb = bb + n[i] * (0.07780 * tc / pc);
    }
    let mut aa = B::zero();
    for i in 0..recs.len() {
        for j in 0..recs.len() {
            let k = if i == j { 0.0 } else { kij };
            aa = aa + n[i] * n[j] * (ai[i] * ai[j]).sqrt() * (1.0 - k);
        }
    }
    ntot * t / (v - bb) - aa / (v * v + bb * v * 2.0 - bb * bb) - ntot * t / v
}
