//! Symbolic (concolic) number: records the expression DAG built by the real generic code.
use ndarray::ScalarOperand;
use num_dual::{DualNum, DualStruct};
use num_traits::{FromPrimitive, Inv, Num, One, Signed, Zero};
use std::cell::RefCell;
use std::collections::HashMap;
use std::fmt;
use std::iter::{Product, Sum};
use std::ops::*;

#[derive(Clone, Copy, PartialEq, Eq, Hash, Debug)]
pub enum Node {
    Const(u64),
    Var(u32),
    Add(u32, u32),
    Sub(u32, u32),
    Mul(u32, u32),
    Div(u32, u32),
    Neg(u32),
    Powi(u32, i32),
    Powf(u32, u64),
    Un(&'static str, u32),
}

#[derive(Default)]
pub struct Arena {
    pub nodes: Vec<Node>,
    /// node denotes a constant (no `Var` below it)
    pub konst: Vec<bool>,
    pub index: HashMap<Node, u32>,
    /// nodes on which `.re()` was called (concretisation sites), with repetition
    pub re_calls: Vec<u32>,
    pub ops: usize,
}

thread_local! {
    pub static ARENA: RefCell<Arena> = RefCell::new(Arena::default());
}

#[derive(Clone, Copy)]
pub struct Sym {
    pub id: u32,
    pub re: f64,
}

fn mk(node: Node, re: f64) -> Sym {
    ARENA.with(|a| {
        let mut a = a.borrow_mut();
        a.ops += 1;
        if let Some(&id) = a.index.get(&node) {
            return Sym { id, re };
        }
        let id = a.nodes.len() as u32;
        let k = match node {
            Node::Const(_) => true,
            Node::Var(_) => false,
            Node::Add(x, y) | Node::Sub(x, y) | Node::Mul(x, y) | Node::Div(x, y) => {
                a.konst[x as usize] && a.konst[y as usize]
            }
            Node::Neg(x) | Node::Powi(x, _) | Node::Powf(x, _) | Node::Un(_, x) => a.konst[x as usize],
        };
        a.nodes.push(node);
        a.konst.push(k);
        a.index.insert(node, id);
        Sym { id, re }
    })
}
fn node(id: u32) -> Node {
    ARENA.with(|a| a.borrow().nodes[id as usize])
}
/// literal constant
fn is_const(s: &Sym) -> Option<f64> {
    match node(s.id) {
        Node::Const(b) => Some(f64::from_bits(b)),
        _ => None,
    }
}
/// constant subtree (arithmetic between constants is kept as nodes and folded in exact
/// rational arithmetic by the checker; transcendental functions of constants fold in f64)
fn is_konst(s: &Sym) -> bool {
    ARENA.with(|a| a.borrow().konst[s.id as usize])
}
pub fn reset() {
    ARENA.with(|a| *a.borrow_mut() = Arena::default());
}
pub fn cst(x: f64) -> Sym {
    mk(Node::Const(x.to_bits()), x)
}
pub fn var(i: u32, witness: f64) -> Sym {
    mk(Node::Var(i), witness)
}

fn bin(op: fn(u32, u32) -> Node, f: fn(f64, f64) -> f64, a: Sym, b: Sym) -> Sym {
    let re = f(a.re, b.re);
    let (ca, cb) = (is_const(&a), is_const(&b));
    // real-arithmetic simplifications
    match op(0, 1) {
        Node::Mul(..) => {
            if ca == Some(0.0) || cb == Some(0.0) { return cst(0.0); }
            if ca == Some(1.0) { return b; }
            if cb == Some(1.0) { return a; }
        }
        Node::Add(..) => {
            if ca == Some(0.0) { return b; }
            if cb == Some(0.0) { return a; }
        }
        Node::Sub(..) => {
            if cb == Some(0.0) { return a; }
        }
        Node::Div(..) => {
            if cb == Some(1.0) { return a; }
            if ca == Some(0.0) { return cst(0.0); }
        }
        _ => {}
    }
    mk(op(a.id, b.id), re)
}
fn un(name: &'static str, f: fn(f64) -> f64, a: &Sym) -> Sym {
    let re = f(a.re);
    if is_konst(a) {
        return cst(re);
    }
    mk(Node::Un(name, a.id), re)
}

macro_rules! binop {
    ($tr:ident, $m:ident, $node:expr, $f:expr) => {
        impl $tr<Sym> for Sym {
            type Output = Sym;
            fn $m(self, o: Sym) -> Sym {
                bin($node, $f, self, o)
            }
        }
        impl<'a> $tr<&'a Sym> for Sym {
            type Output = Sym;
            fn $m(self, o: &'a Sym) -> Sym {
                bin($node, $f, self, *o)
            }
        }
        impl<'a> $tr<Sym> for &'a Sym {
            type Output = Sym;
            fn $m(self, o: Sym) -> Sym {
                bin($node, $f, *self, o)
            }
        }
        impl<'a, 'b> $tr<&'b Sym> for &'a Sym {
            type Output = Sym;
            fn $m(self, o: &'b Sym) -> Sym {
                bin($node, $f, *self, *o)
            }
        }
        impl $tr<f64> for Sym {
            type Output = Sym;
            fn $m(self, o: f64) -> Sym {
                bin($node, $f, self, cst(o))
            }
        }
        impl $tr<Sym> for f64 {
            type Output = Sym;
            fn $m(self, o: Sym) -> Sym {
                bin($node, $f, cst(self), o)
            }
        }
    };
}
binop!(Add, add, Node::Add, |a, b| a + b);
binop!(Sub, sub, Node::Sub, |a, b| a - b);
binop!(Mul, mul, Node::Mul, |a, b| a * b);
binop!(Div, div, Node::Div, |a, b| a / b);

macro_rules! remop {
    ($rhs:ty) => {
        impl Rem<$rhs> for Sym {
            type Output = Sym;
            fn rem(self, _o: $rhs) -> Sym {
                panic!("rem not supported")
            }
        }
    };
}
remop!(Sym);
remop!(&Sym);
remop!(f64);

macro_rules! assignop {
    ($tr:ident, $m:ident, $op:tt) => {
        impl $tr<Sym> for Sym { fn $m(&mut self, o: Sym) { *self = *self $op o; } }
        impl $tr<f64> for Sym { fn $m(&mut self, o: f64) { *self = *self $op o; } }
    };
}
assignop!(AddAssign, add_assign, +);
assignop!(SubAssign, sub_assign, -);
assignop!(MulAssign, mul_assign, *);
assignop!(DivAssign, div_assign, /);
impl RemAssign<Sym> for Sym { fn rem_assign(&mut self, _o: Sym) { panic!() } }
impl RemAssign<f64> for Sym { fn rem_assign(&mut self, _o: f64) { panic!() } }

impl Neg for Sym {
    type Output = Sym;
    fn neg(self) -> Sym {
        if is_const(&self).is_some() { return cst(-self.re); }
        mk(Node::Neg(self.id), -self.re)
    }
}
impl<'a> Neg for &'a Sym {
    type Output = Sym;
    fn neg(self) -> Sym { -*self }
}
impl PartialEq for Sym {
    fn eq(&self, o: &Sym) -> bool { self.re == o.re }
}
impl Zero for Sym {
    fn zero() -> Sym { cst(0.0) }
    fn is_zero(&self) -> bool { self.re == 0.0 }
}
impl One for Sym {
    fn one() -> Sym { cst(1.0) }
}
impl Num for Sym {
    type FromStrRadixErr = ();
    fn from_str_radix(_: &str, _: u32) -> Result<Self, ()> { Err(()) }
}
impl Signed for Sym {
    fn abs(&self) -> Sym { un("abs", f64::abs, self) }
    fn abs_sub(&self, o: &Sym) -> Sym { if self.re <= o.re { Sym::zero() } else { *self - *o } }
    fn signum(&self) -> Sym { cst(self.re.signum()) }
    fn is_positive(&self) -> bool { self.re > 0.0 }
    fn is_negative(&self) -> bool { self.re < 0.0 }
}
impl Inv for Sym {
    type Output = Sym;
    fn inv(self) -> Sym { self.recip() }
}
impl Sum for Sym {
    fn sum<I: Iterator<Item = Sym>>(iter: I) -> Sym { iter.fold(Sym::zero(), |a, b| a + b) }
}
impl<'a> Sum<&'a Sym> for Sym {
    fn sum<I: Iterator<Item = &'a Sym>>(iter: I) -> Sym { iter.fold(Sym::zero(), |a, b| a + *b) }
}
impl Product for Sym {
    fn product<I: Iterator<Item = Sym>>(iter: I) -> Sym { iter.fold(Sym::one(), |a, b| a * b) }
}
impl<'a> Product<&'a Sym> for Sym {
    fn product<I: Iterator<Item = &'a Sym>>(iter: I) -> Sym { iter.fold(Sym::one(), |a, b| a * *b) }
}
impl FromPrimitive for Sym {
    fn from_i64(n: i64) -> Option<Sym> { Some(cst(n as f64)) }
    fn from_u64(n: u64) -> Option<Sym> { Some(cst(n as f64)) }
    fn from_f64(n: f64) -> Option<Sym> { Some(cst(n)) }
}
impl From<f64> for Sym {
    fn from(x: f64) -> Sym { cst(x) }
}
impl fmt::Display for Sym {
    fn fmt(&self, f: &mut fmt::Formatter) -> fmt::Result { write!(f, "n{}[{}]", self.id, self.re) }
}
impl fmt::Debug for Sym {
    fn fmt(&self, f: &mut fmt::Formatter) -> fmt::Result { write!(f, "n{}[{}]", self.id, self.re) }
}
impl ScalarOperand for Sym {}
impl DualStruct<Sym, f64> for Sym {
    type Real = f64;
    type Lifted<D2: DualNum<f64, Inner = Sym>> = D2;
    fn real(&self) -> f64 { self.re }
    fn lift<D2: DualNum<f64, Inner = Sym>>(&self) -> D2 { D2::from_inner(*self) }
}

impl DualNum<f64> for Sym {
    const NDERIV: usize = 0;
    type Inner = f64;
    fn from_inner(inner: f64) -> Sym { cst(inner) }
    fn re(&self) -> f64 {
        ARENA.with(|a| a.borrow_mut().re_calls.push(self.id));
        self.re
    }
    fn recip(&self) -> Sym { cst(1.0) / *self }
    fn powi(&self, n: i32) -> Sym {
        if n == 0 { return cst(1.0); }
        if n == 1 { return *self; }
        mk(Node::Powi(self.id, n), self.re.powi(n))
    }
    fn powf(&self, n: f64) -> Sym {
        if is_konst(self) { return cst(self.re.powf(n)); }
        mk(Node::Powf(self.id, n.to_bits()), self.re.powf(n))
    }
    fn sqrt(&self) -> Sym { un("sqrt", f64::sqrt, self) }
    fn cbrt(&self) -> Sym { un("cbrt", f64::cbrt, self) }
    fn exp(&self) -> Sym { un("exp", f64::exp, self) }
    fn exp2(&self) -> Sym { un("exp2", f64::exp2, self) }
    fn exp_m1(&self) -> Sym { un("exp_m1", f64::exp_m1, self) }
    fn ln(&self) -> Sym { un("ln", f64::ln, self) }
    fn log(&self, base: f64) -> Sym { self.ln() / base.ln() }
    fn log2(&self) -> Sym { un("log2", f64::log2, self) }
    fn log10(&self) -> Sym { un("log10", f64::log10, self) }
    fn ln_1p(&self) -> Sym { un("ln_1p", f64::ln_1p, self) }
    fn sin(&self) -> Sym { un("sin", f64::sin, self) }
    fn cos(&self) -> Sym { un("cos", f64::cos, self) }
    fn tan(&self) -> Sym { un("tan", f64::tan, self) }
    fn sin_cos(&self) -> (Sym, Sym) { (self.sin(), self.cos()) }
    fn asin(&self) -> Sym { un("asin", f64::asin, self) }
    fn acos(&self) -> Sym { un("acos", f64::acos, self) }
    fn atan(&self) -> Sym { un("atan", f64::atan, self) }
    fn atan2(&self, _o: Sym) -> Sym { panic!("atan2") }
    fn sinh(&self) -> Sym { un("sinh", f64::sinh, self) }
    fn cosh(&self) -> Sym { un("cosh", f64::cosh, self) }
    fn tanh(&self) -> Sym { un("tanh", f64::tanh, self) }
    fn asinh(&self) -> Sym { un("asinh", f64::asinh, self) }
    fn acosh(&self) -> Sym { un("acosh", f64::acosh, self) }
    fn atanh(&self) -> Sym { un("atanh", f64::atanh, self) }
    fn sph_j0(&self) -> Sym { un("sph_j0", |x| x.sph_j0(), self) }
    fn sph_j1(&self) -> Sym { un("sph_j1", |x| x.sph_j1(), self) }
    fn sph_j2(&self) -> Sym { un("sph_j2", |x| x.sph_j2(), self) }
}
