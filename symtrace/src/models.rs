//! Model registry: builds the real feos models through their real constructors from a JSON spec.
//!
//! spec = {"kind": "...", "src": [[file, [substance, ...]], ...], "binary": file|null,
//!         "bin": <json of the model's binary record>|null,   // uniform synthetic binary record
//!         "idx": [i, ...]|null,     // rebuild from records[idx] (permutation / duplication / direct subset)
//!         "subset": [i, ...]|null,  // call Components::subset on the built model
//!         "fmt": "WhiteBear|KierlikRosinberg|AntiSymWhiteBear", "pert": "wca|bh|b3",
//!         "wrap": "enum"|"eos"|null, "syn": [[numbers...], ...] (records for models without shipped files)}
use feos::epcsaft::{ElectrolytePcSaft, ElectrolytePcSaftParameters};
use feos::gc_pcsaft::{GcPcSaft, GcPcSaftEosParameters, GcPcSaftFunctional, GcPcSaftFunctionalParameters};
use feos::hard_sphere::{FMTFunctional, FMTVersion, HardSphere, HardSphereProperties, MonomerShape};
use feos::ideal_gas::{Dippr, DipprRecord, IdealGasModel, Joback, JobackRecord};
use feos::pcsaft::{PcSaft, PcSaftFunctional, PcSaftOptions, PcSaftParameters};
use feos::pets::{Pets, PetsFunctional, PetsParameters, PetsRecord};
use feos::saftvrmie::{SaftVRMie, SaftVRMieParameters};
use feos::saftvrqmie::{SaftVRQMie, SaftVRQMieFunctional, SaftVRQMieParameters};
use feos::uvtheory::{Perturbation, UVTheory, UVTheoryOptions, UVTheoryParameters, UVTheoryRecord};
use feos::ResidualModel;
use feos_core::cubic::{PengRobinson, PengRobinsonParameters, PengRobinsonRecord};
use feos_core::parameter::{Identifier, IdentifierOption, Parameter, ParameterHetero, PureRecord};
use feos_core::{Components, EquationOfState, IdealGas, Residual, StateHD};
use ndarray::{Array1, Array2, ScalarOperand};
use num_dual::DualNum;
use serde_json::Value;
use std::sync::Arc;

pub const PARAM_ROOT: &str = "/repo/parameters/";

/// BMCSL reference for the FMT pair (C08): additive hard spheres with fixed diameters.
pub struct FixedSpheres(pub Array1<f64>);
impl HardSphereProperties for FixedSpheres {
    fn monomer_shape<N: DualNum<f64> + Copy>(&self, _: N) -> MonomerShape<N> {
        MonomerShape::Spherical(self.0.len())
    }
    fn hs_diameter<N: DualNum<f64> + Copy>(&self, _: N) -> Array1<N> {
        self.0.mapv(N::from)
    }
}

pub enum Model {
    Pr(PengRobinson),
    PcSaft(PcSaft),
    EPcSaft(ElectrolytePcSaft),
    GcPcSaft(GcPcSaft),
    Pets(Pets),
    Uv(UVTheory),
    VrMie(SaftVRMie),
    VrqMie(SaftVRQMie),
    PcSaftFun(PcSaftFunctional),
    GcFun(GcPcSaftFunctional),
    PetsFun(PetsFunctional),
    VrqFun(SaftVRQMieFunctional),
    FmtFun(FMTFunctional),
    Bmcsl(Arc<FixedSpheres>),
    Enum(ResidualModel),
    Eos(EquationOfState<IdealGasModel, ResidualModel>),
}

macro_rules! each {
    ($self:expr, $m:ident => $e:expr) => {
        match $self {
            Model::Pr($m) => $e,
            Model::PcSaft($m) => $e,
            Model::EPcSaft($m) => $e,
            Model::GcPcSaft($m) => $e,
            Model::Pets($m) => $e,
            Model::Uv($m) => $e,
            Model::VrMie($m) => $e,
            Model::VrqMie($m) => $e,
            Model::PcSaftFun($m) => $e,
            Model::GcFun($m) => $e,
            Model::PetsFun($m) => $e,
            Model::VrqFun($m) => $e,
            Model::FmtFun($m) => $e,
            Model::Enum($m) => $e,
            Model::Eos($m) => $e,
            Model::Bmcsl(_) => unreachable!(),
        }
    };
}

impl Model {
    pub fn contribs<D: DualNum<f64> + Copy + ScalarOperand>(&self, s: &StateHD<D>) -> Vec<(String, D)> {
        if let Model::Bmcsl(p) = self {
            return vec![("Hard Sphere".into(), HardSphere::new(p).helmholtz_energy(s))];
        }
        each!(self, m => m.residual_helmholtz_energy_contributions(s))
    }
    pub fn components(&self) -> usize {
        if let Model::Bmcsl(p) = self {
            return p.0.len();
        }
        each!(self, m => m.components())
    }
    pub fn max_density(&self, moles: &Array1<f64>) -> f64 {
        if let Model::Bmcsl(p) = self {
            return moles.sum() / (moles * &p.0).sum() * 1.2;
        }
        each!(self, m => m.compute_max_density(moles))
    }
    pub fn subset(&self, idx: &[usize]) -> Model {
        match self {
            Model::Pr(m) => Model::Pr(m.subset(idx)),
            Model::PcSaft(m) => Model::PcSaft(m.subset(idx)),
            Model::EPcSaft(m) => Model::EPcSaft(m.subset(idx)),
            Model::GcPcSaft(m) => Model::GcPcSaft(m.subset(idx)),
            Model::Pets(m) => Model::Pets(m.subset(idx)),
            Model::Uv(m) => Model::Uv(m.subset(idx)),
            Model::VrMie(m) => Model::VrMie(m.subset(idx)),
            Model::VrqMie(m) => Model::VrqMie(m.subset(idx)),
            Model::PcSaftFun(m) => Model::PcSaftFun(m.subset(idx)),
            Model::GcFun(m) => Model::GcFun(m.subset(idx)),
            Model::PetsFun(m) => Model::PetsFun(m.subset(idx)),
            Model::VrqFun(m) => Model::VrqFun(m.subset(idx)),
            Model::FmtFun(m) => Model::FmtFun(m.subset(idx)),
            Model::Enum(m) => Model::Enum(m.subset(idx)),
            Model::Eos(m) => Model::Eos(m.subset(idx)),
            Model::Bmcsl(p) => Model::Bmcsl(Arc::new(FixedSpheres(idx.iter().map(|&i| p.0[i]).collect()))),
        }
    }
}

fn idx_of(v: &Value) -> Option<Vec<usize>> {
    v.as_array().map(|a| a.iter().map(|x| x.as_u64().unwrap() as usize).collect())
}

fn sources(spec: &Value) -> Vec<(Vec<String>, String)> {
    spec["src"]
        .as_array()
        .expect("src")
        .iter()
        .map(|e| {
            let f = format!("{}{}", PARAM_ROOT, e[0].as_str().unwrap());
            let s = e[1].as_array().unwrap().iter().map(|x| x.as_str().unwrap().to_string()).collect();
            (s, f)
        })
        .collect()
}

/// Real constructor path: `from_multiple_json`, then optionally `from_records` on re-indexed records.
pub fn params<P: Parameter>(spec: &Value) -> P
where
    P::Pure: Clone,
{
    let src = sources(spec);
    let input: Vec<(Vec<&str>, String)> = src.iter().map(|(s, f)| (s.iter().map(|x| x.as_str()).collect(), f.clone())).collect();
    let binary = spec["binary"].as_str().map(|b| format!("{}{}", PARAM_ROOT, b));
    let mut p = P::from_multiple_json(&input, binary, IdentifierOption::Name).expect("from_multiple_json");
    if !spec["bin"].is_null() {
        let b: P::Binary = serde_json::from_value(spec["bin"].clone()).expect("bin record");
        let (pure, _) = p.records();
        let n = pure.len();
        let m = Array2::from_shape_fn([n, n], |(i, j)| if i == j { P::Binary::default() } else { b.clone() });
        p = P::from_records(pure.to_vec(), Some(m)).expect("from_records(bin)");
    }
    if let Some(m) = spec["binm"].as_array() {
        p = with_binm(&p, m);
    }
    if let Some(idx) = idx_of(&spec["idx"]) {
        p = reindex(&p, &idx);
    }
    p
}

/// pairwise different synthetic binary records: binm[i][j] is the JSON of the model's binary record
fn with_binm<P: Parameter>(p: &P, m: &[Value]) -> P {
    let (pure, _) = p.records();
    let n = pure.len();
    let mat = Array2::from_shape_fn([n, n], |(i, j)| {
        if i == j {
            P::Binary::default()
        } else {
            serde_json::from_value(m[i.min(j)][i.max(j)].clone()).expect("binm record")
        }
    });
    P::from_records(pure.to_vec(), Some(mat)).expect("from_records(binm)")
}

/// `from_records(records[idx], binary[idx, idx])`: the model "built directly from those components".
pub fn reindex<P: Parameter>(p: &P, idx: &[usize]) -> P {
    let (pure, bin) = p.records();
    let pure2: Vec<_> = idx.iter().map(|&i| pure[i].clone()).collect();
    let bin2 = bin.map(|b| {
        Array2::from_shape_fn([idx.len(), idx.len()], |(i, j)| {
            if idx[i] == idx[j] {
                P::Binary::default()
            } else {
                b[[idx[i], idx[j]]].clone()
            }
        })
    });
    P::from_records(pure2, bin2).expect("from_records(idx)")
}

pub fn params_hetero<P: ParameterHetero>(spec: &Value) -> P
where
    feos_core::parameter::ChemicalRecord: Into<P::Chemical>,
{
    let src = sources(spec);
    assert!(src.len() == 1, "gc models: one substance file");
    let subs: Vec<&str> = src[0].0.iter().map(|x| x.as_str()).collect();
    let seg = format!("{}{}", PARAM_ROOT, spec["segments"].as_str().expect("segments"));
    let binary = spec["binary"].as_str().map(|b| format!("{}{}", PARAM_ROOT, b));
    let mut p = P::from_json_segments(&subs, src[0].1.clone(), seg, binary, IdentifierOption::Name).expect("from_json_segments");
    if let Some(idx) = idx_of(&spec["idx"]) {
        let (chem, segs, bin) = p.records();
        let chem2: Vec<P::Chemical> = idx.iter().map(|&i| chem[i].clone()).collect();
        p = P::from_segments(chem2, segs.to_vec(), bin.clone()).expect("from_segments(idx)");
    }
    p
}

fn fmt_version(spec: &Value) -> FMTVersion {
    match spec["fmt"].as_str().unwrap_or("WhiteBear") {
        "WhiteBear" => FMTVersion::WhiteBear,
        "KierlikRosinberg" => FMTVersion::KierlikRosinberg,
        "AntiSymWhiteBear" => FMTVersion::AntiSymWhiteBear,
        o => panic!("fmt {o}"),
    }
}

fn syn(spec: &Value) -> Vec<Vec<f64>> {
    spec["syn"]
        .as_array()
        .expect("syn")
        .iter()
        .map(|r| r.as_array().unwrap().iter().map(|x| x.as_f64().unwrap()).collect())
        .collect()
}

fn syn_params<P: Parameter>(recs: Vec<P::Pure>, mw: &[f64], spec: &Value) -> P {
    let pure: Vec<_> = recs
        .into_iter()
        .enumerate()
        .map(|(i, r)| {
            let id = Identifier::new(None, Some(&format!("syn{i}")), None, None, None, None);
            PureRecord::new(id, mw[i], r)
        })
        .collect();
    let n = pure.len();
    let bin = if spec["bin"].is_null() {
        None
    } else {
        let b: P::Binary = serde_json::from_value(spec["bin"].clone()).expect("bin record");
        Some(Array2::from_shape_fn([n, n], |(i, j)| if i == j { P::Binary::default() } else { b.clone() }))
    };
    let mut p = P::from_records(pure, bin).expect("from_records(syn)");
    if let Some(m) = spec["binm"].as_array() {
        p = with_binm(&p, m);
    }
    if let Some(idx) = idx_of(&spec["idx"]) {
        p = reindex(&p, &idx);
    }
    p
}

pub fn build(spec: &Value) -> Model {
    let kind = spec["kind"].as_str().expect("kind");
    let m = match kind {
        "pr" => {
            let s = syn(spec);
            let recs: Vec<_> = s.iter().map(|r| PengRobinsonRecord::new(r[0], r[1], r[2])).collect();
            let mw: Vec<f64> = s.iter().map(|r| r[3]).collect();
            Model::Pr(PengRobinson::new(Arc::new(syn_params::<PengRobinsonParameters>(recs, &mw, spec))))
        }
        "pcsaft" => {
            let mut o = PcSaftOptions::default();
            if let Some(dq) = spec["dq"].as_str() {
                o.dq_variant = match dq {
                    "dq35" => feos::pcsaft::DQVariants::DQ35,
                    "dq44" => feos::pcsaft::DQVariants::DQ44,
                    x => panic!("dq {x}"),
                };
            }
            Model::PcSaft(PcSaft::with_options(Arc::new(params::<PcSaftParameters>(spec)), o))
        }
        "pcsaft_fun" => Model::PcSaftFun(PcSaftFunctional::new_full(Arc::new(params::<PcSaftParameters>(spec)), fmt_version(spec))),
        "epcsaft" => Model::EPcSaft(ElectrolytePcSaft::new(Arc::new(params::<ElectrolytePcSaftParameters>(spec)))),
        "gcpcsaft" => Model::GcPcSaft(GcPcSaft::new(Arc::new(params_hetero::<GcPcSaftEosParameters>(spec)))),
        "gcpcsaft_fun" => Model::GcFun(GcPcSaftFunctional::with_options(
            Arc::new(params_hetero::<GcPcSaftFunctionalParameters>(spec)),
            fmt_version(spec),
            Default::default(),
        )),
        "pets" | "pets_fun" => {
            let s = syn(spec);
            let recs: Vec<_> = s.iter().map(|r| PetsRecord::new(r[0], r[1], None, None, None)).collect();
            let mw: Vec<f64> = s.iter().map(|r| r[2]).collect();
            let p = Arc::new(syn_params::<PetsParameters>(recs, &mw, spec));
            if kind == "pets" {
                Model::Pets(Pets::new(p))
            } else {
                Model::PetsFun(PetsFunctional::new_full(p, fmt_version(spec)))
            }
        }
        "uv" => {
            let s = syn(spec);
            let recs: Vec<_> = s.iter().map(|r| UVTheoryRecord::new(r[0], r[1], r[2], r[3])).collect();
            let mw: Vec<f64> = s.iter().map(|_| 1.0).collect();
            let mut o = UVTheoryOptions::default();
            o.perturbation = match spec["pert"].as_str().unwrap_or("wca") {
                "wca" => Perturbation::WeeksChandlerAndersen,
                "bh" => Perturbation::BarkerHenderson,
                "b3" => Perturbation::WeeksChandlerAndersenB3,
                x => panic!("pert {x}"),
            };
            Model::Uv(UVTheory::with_options(Arc::new(syn_params::<UVTheoryParameters>(recs, &mw, spec)), o))
        }
        "saftvrmie" => {
            let p = if spec["syn"].is_null() {
                params::<SaftVRMieParameters>(spec)
            } else {
                // [m, sigma, epsilon_k, lr, la, mw]
                let s = syn(spec);
                let recs: Vec<_> = s.iter().map(|r| feos::saftvrmie::SaftVRMieRecord::new_simple(r[0], r[1], r[2], r[3], r[4])).collect();
                let mw: Vec<f64> = s.iter().map(|r| r[5]).collect();
                syn_params::<SaftVRMieParameters>(recs, &mw, spec)
            };
            Model::VrMie(SaftVRMie::new(Arc::new(p)))
        }
        "saftvrqmie" => {
            let p = if spec["syn"].is_null() {
                params::<SaftVRQMieParameters>(spec)
            } else {
                // [m, sigma, epsilon_k, lr, la, mw] with Feynman-Hibbs order spec["fh"]
                let s = syn(spec);
                let fh = spec["fh"].as_u64().unwrap_or(0) as usize;
                let recs: Vec<_> = s
                    .iter()
                    .map(|r| feos::saftvrqmie::SaftVRQMieRecord::new(r[0], r[1], r[2], r[3], r[4], fh, None, None, None).unwrap())
                    .collect();
                let mw: Vec<f64> = s.iter().map(|r| r[5]).collect();
                syn_params::<SaftVRQMieParameters>(recs, &mw, spec)
            };
            Model::VrqMie(SaftVRQMie::new(Arc::new(p)))
        }
        // homosegmented group contribution: Parameter::from_json_segments (combining rules) ...
        "pcsaft_homogc" => {
            let src = sources(spec);
            let subs: Vec<&str> = src[0].0.iter().map(|x| x.as_str()).collect();
            let seg = format!("{}{}", PARAM_ROOT, spec["segments"].as_str().expect("segments"));
            let p = PcSaftParameters::from_json_segments(&subs, src[0].1.clone(), seg, None::<String>, IdentifierOption::Name).expect("from_json_segments");
            Model::PcSaft(PcSaft::new(Arc::new(p)))
        }
        // ... versus the molecule built from the combined record (records() of the former, fed to from_records)
        "pcsaft_homogc_records" => {
            let src = sources(spec);
            let subs: Vec<&str> = src[0].0.iter().map(|x| x.as_str()).collect();
            let seg = format!("{}{}", PARAM_ROOT, spec["segments"].as_str().expect("segments"));
            let p = PcSaftParameters::from_json_segments(&subs, src[0].1.clone(), seg, None::<String>, IdentifierOption::Name).expect("from_json_segments");
            let (pure, bin) = p.records();
            let p2 = PcSaftParameters::from_records(pure.to_vec(), bin.cloned()).expect("from_records");
            Model::PcSaft(PcSaft::new(Arc::new(p2)))
        }
        "saftvrqmie_fun" => Model::VrqFun(SaftVRQMieFunctional::new_full(Arc::new(params::<SaftVRQMieParameters>(spec)), fmt_version(spec))),
        "fmt_fun" => {
            let s = syn(spec);
            let sigma: Array1<f64> = s.iter().map(|r| r[0]).collect();
            Model::FmtFun(FMTFunctional::new(&sigma, fmt_version(spec)))
        }
        "bmcsl" => {
            let s = syn(spec);
            Model::Bmcsl(Arc::new(FixedSpheres(s.iter().map(|r| r[0]).collect())))
        }
        k => panic!("unknown model kind {k}"),
    };
    let m = match idx_of(&spec["subset"]) {
        Some(idx) => m.subset(&idx),
        None => m,
    };
    match spec["wrap"].as_str() {
        None => m,
        Some(w) => {
            let rm = match m {
                Model::Pr(x) => ResidualModel::PengRobinson(x),
                Model::PcSaft(x) => ResidualModel::PcSaft(x),
                Model::EPcSaft(x) => ResidualModel::ElectrolytePcSaft(x),
                Model::GcPcSaft(x) => ResidualModel::GcPcSaft(x),
                Model::Pets(x) => ResidualModel::Pets(x),
                Model::Uv(x) => ResidualModel::UVTheory(x),
                Model::VrMie(x) => ResidualModel::SaftVRMie(x),
                Model::VrqMie(x) => ResidualModel::SaftVRQMie(x),
                Model::PcSaftFun(x) => ResidualModel::PcSaftFunctional(x),
                Model::GcFun(x) => ResidualModel::GcPcSaftFunctional(x),
                Model::PetsFun(x) => ResidualModel::PetsFunctional(x),
                Model::VrqFun(x) => ResidualModel::SaftVRQMieFunctional(x),
                Model::FmtFun(x) => ResidualModel::FmtFunctional(x),
                _ => panic!("cannot wrap"),
            };
            match w {
                "enum" => Model::Enum(rm),
                "eos" => {
                    let n = rm.components();
                    let recs: Vec<_> = (0..n)
                        .map(|i| PureRecord::new(Identifier::default(), 1.0, JobackRecord::new(1.0 + i as f64, 0.1, 1e-4, 1e-7, 1e-10)))
                        .collect();
                    let ig = IdealGasModel::Joback(Arc::new(Joback::from_records(recs, None).unwrap()));
                    Model::Eos(EquationOfState::new(Arc::new(ig), Arc::new(rm)))
                }
                x => panic!("wrap {x}"),
            }
        }
    }
}

/// Ideal-gas models (C10).
pub enum Ideal {
    Joback(Joback),
    Dippr(Dippr),
}
impl Ideal {
    pub fn helmholtz<D: DualNum<f64> + Copy>(&self, s: &StateHD<D>) -> D {
        match self {
            Ideal::Joback(m) => m.ideal_gas_helmholtz_energy(s),
            Ideal::Dippr(m) => m.ideal_gas_helmholtz_energy(s),
        }
    }
    pub fn components(&self) -> usize {
        match self {
            Ideal::Joback(m) => m.components(),
            Ideal::Dippr(m) => m.components(),
        }
    }
    pub fn subset(&self, idx: &[usize]) -> Ideal {
        match self {
            Ideal::Joback(m) => Ideal::Joback(Components::subset(m, idx)),
            Ideal::Dippr(m) => Ideal::Dippr(Components::subset(m, idx)),
        }
    }
}
pub fn build_ideal(spec: &Value) -> Ideal {
    match spec["kind"].as_str().expect("kind") {
        "joback" => Ideal::Joback(if spec["syn"].is_null() {
            params::<Joback>(spec)
        } else {
            let s = syn(spec);
            let recs: Vec<_> = s.iter().map(|r| JobackRecord::new(r[0], r[1], r[2], r[3], r[4])).collect();
            let mw: Vec<f64> = s.iter().map(|_| 1.0).collect();
            syn_params::<Joback>(recs, &mw, spec)
        }),
        "dippr" => {
            if spec["syn"].is_null() {
                Ideal::Dippr(params::<Dippr>(spec))
            } else {
                let s = syn(spec);
                let recs: Vec<_> = s
                    .iter()
                    .map(|r| match r[0] as i32 {
                        100 => DipprRecord::eq100(&r[1..]),
                        107 => DipprRecord::eq107(r[1], r[2], r[3], r[4], r[5]),
                        127 => DipprRecord::eq127(r[1], r[2], r[3], r[4], r[5], r[6], r[7]),
                        e => panic!("dippr eq {e}"),
                    })
                    .collect();
                let mw: Vec<f64> = s.iter().map(|_| 1.0).collect();
                Ideal::Dippr(syn_params::<Dippr>(recs, &mw, spec))
            }
        }
        k => panic!("unknown ideal gas kind {k}"),
    }
}
