//! Verification stand-in for std::collections::HashMap: fixed-capacity association array.
const CAP: usize = 24;
#[derive(Clone, Debug)]
pub struct HashMap<K, V> {
    items: [Option<(K, V)>; CAP],
    len: usize,
}
impl<K: PartialEq + Copy, V: Copy> HashMap<K, V> {
    pub fn with_capacity(_n: usize) -> Self {
        Self { items: [None; CAP], len: 0 }
    }
    pub fn get(&self, k: &K) -> Option<&V> {
        let mut i = 0;
        while i < self.len {
            if let Some((kk, v)) = &self.items[i] {
                if kk == k {
                    return Some(v);
                }
            }
            i += 1;
        }
        None
    }
    pub fn insert(&mut self, k: K, v: V) -> Option<V> {
        let mut i = 0;
        while i < self.len {
            if let Some((kk, vv)) = &mut self.items[i] {
                if *kk == k {
                    return Some(std::mem::replace(vv, v));
                }
            }
            i += 1;
        }
        assert!(self.len < CAP);
        self.items[self.len] = Some((k, v));
        self.len += 1;
        None
    }
}
