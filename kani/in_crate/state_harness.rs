//! In-crate Kani harnesses for feos-core/src/state (mounted by the cfg(kani) hook in state/mod.rs).
//! C11 (cache level): every call history of the five `get_or_insert_with_*` methods with symbolic
//! method choice, symbolic derivative keys and an oracle of arbitrary f64 values returns, bitwise,
//! the oracle value of the requested key.
use super::cache::Cache;
use super::Derivative;
use num_dual::*;

const NC: usize = 2;
const ND: usize = NC + 2;

fn di(d: Derivative) -> usize {
    match d {
        Derivative::DV => 0,
        Derivative::DT => 1,
        Derivative::DN(i) => 2 + i,
    }
}
fn any_d() -> Derivative {
    let k: u8 = kani::any();
    kani::assume((k as usize) < ND);
    match k {
        0 => Derivative::DV,
        1 => Derivative::DT,
        k => Derivative::DN(k as usize - 2),
    }
}

/// one arbitrary f64 (any bit pattern) per derivative key of a 2-component system
struct Oracle {
    zeroth: f64,
    first: [f64; ND],
    second: [[f64; ND]; ND], // used as [min][max]
    third: [f64; ND],
}
impl Oracle {
    fn any() -> Self {
        Oracle {
            zeroth: kani::any(),
            first: kani::any(),
            second: kani::any(),
            third: kani::any(),
        }
    }
    fn sec(&self, a: Derivative, b: Derivative) -> f64 {
        let (i, j) = (di(a), di(b));
        self.second[i.min(j)][i.max(j)]
    }
}
fn same(a: f64, b: f64) -> bool {
    a.to_bits() == b.to_bits()
}

fn step(cache: &mut Cache, o: &Oracle) {
    let kind: u8 = kani::any();
    kani::assume(kind < 5);
    let d1 = any_d();
    let d2 = any_d();
    match kind {
        0 => {
            let r = cache.get_or_insert_with_f64(|| o.zeroth);
            assert!(same(r, o.zeroth));
        }
        1 => {
            let r = cache.get_or_insert_with_d64(d1, || Dual64::new(o.zeroth, o.first[di(d1)]));
            assert!(same(r, o.first[di(d1)]));
        }
        2 => {
            let r = cache
                .get_or_insert_with_d2_64(d1, || Dual2_64::new(o.zeroth, o.first[di(d1)], o.sec(d1, d1)));
            assert!(same(r, o.sec(d1, d1)));
        }
        3 => {
            let r = cache.get_or_insert_with_hd64(d1, d2, || {
                HyperDual64::new(o.zeroth, o.first[di(d1)], o.first[di(d2)], o.sec(d1, d2))
            });
            assert!(same(r, o.sec(d1, d2)));
        }
        _ => {
            let r = cache.get_or_insert_with_hd364(d1, || {
                Dual3_64::new(o.zeroth, o.first[di(d1)], o.sec(d1, d1), o.third[di(d1)])
            });
            assert!(same(r, o.third[di(d1)]));
        }
    }
}

#[kani::proof]
#[kani::unwind(10)]
fn c11_cache_history_1() {
    let o = Oracle::any();
    let mut cache = Cache::with_capacity(NC);
    step(&mut cache, &o);
    kani::cover!(cache.miss > 0);
    std::mem::forget(cache);
}

#[kani::proof]
#[kani::unwind(10)]
fn c11_cache_history_2() {
    let o = Oracle::any();
    let mut cache = Cache::with_capacity(NC);
    step(&mut cache, &o);
    step(&mut cache, &o);
    kani::cover!(cache.hit > 0 && cache.miss > 0);
    std::mem::forget(cache);
}

/// vacuity witness: a history with one miss and one hit is reachable
#[kani::proof]
#[kani::unwind(10)]
fn c11_cache_history_2_reach() {
    let o = Oracle::any();
    let mut cache = Cache::with_capacity(NC);
    step(&mut cache, &o);
    step(&mut cache, &o);
    kani::cover!(cache.hit > 0 && cache.miss > 0);
    std::mem::forget(cache);
}

/// history after a clone taken between the calls (the clone must carry the entries)
#[kani::proof]
#[kani::unwind(10)]
fn c11_cache_history_clone_2() {
    let o = Oracle::any();
    let mut cache = Cache::with_capacity(NC);
    step(&mut cache, &o);
    let mut c2 = cache.clone();
    step(&mut c2, &o);
    step(&mut cache, &o);
    kani::cover!(cache.hit > 0 && c2.hit > 0);
    std::mem::forget(cache);
    std::mem::forget(c2);
}

#[kani::proof]
#[kani::unwind(14)]
fn c11_cache_history_3() {
    let o = Oracle::any();
    let mut cache = Cache::with_capacity(NC);
    step(&mut cache, &o);
    step(&mut cache, &o);
    step(&mut cache, &o);
    kani::cover!(cache.hit > 1 && cache.miss > 0);
    std::mem::forget(cache);
}

#[kani::proof]
#[kani::unwind(14)]
fn c11_cache_history_3_reach() {
    let o = Oracle::any();
    let mut cache = Cache::with_capacity(NC);
    step(&mut cache, &o);
    step(&mut cache, &o);
    step(&mut cache, &o);
    kani::cover!(cache.hit > 1 && cache.miss > 0);
    std::mem::forget(cache);
}

/// C03-b (validation kernel): `validate` accepts exactly the inputs whose reduced temperature, volume and
/// mole numbers are all finite and not sign-negative — for every bit pattern of the four f64 payloads
/// (2 components).  The reduced values are obtained the way `validate` itself obtains them.
#[kani::proof]
#[kani::unwind(4)]
fn c03_validate_all_bits() {
    use crate::ReferenceSystem;
    use ndarray::arr1;
    use quantity::*;
    let t: f64 = kani::any();
    let v: f64 = kani::any();
    let n0: f64 = kani::any();
    let n1: f64 = kani::any();
    let temperature = Temperature::from_reduced(t);
    let volume = Volume::from_reduced(v);
    let moles = Moles::from_reduced(arr1(&[n0, n1]));
    let good = |x: f64| x.is_finite() && !x.is_sign_negative();
    let m = moles.to_reduced();
    let want = good(temperature.to_reduced()) && good(volume.to_reduced()) && good(m[0]) && good(m[1]);
    let r = super::validate(temperature, volume, &moles);
    assert!(r.is_ok() == want);
    kani::cover!(r.is_ok());
    kani::cover!(r.is_err());
    std::mem::forget(r);
    std::mem::forget(moles);
    std::mem::forget(m);
}
