// C03-a/b: State::new over option subsets (one harness per concrete flag pattern, all payloads symbolic f64)
// flags: [t, v, rho, pd, nt, n, x, p]; `nc` components of the model; `len` length of the array inputs.
use feos_core::{DensityInitialization, EosError, NoResidual};
use quantity::{Density, Pressure};

fn same_bits(a: f64, b: f64) -> bool {
    a.to_bits() == b.to_bits()
}
fn valid(x: f64) -> bool {
    x.is_finite() && !x.is_sign_negative()
}

/// payload: symbolic f64 (any bit pattern) if selected by the mask, else a fixed power of two
fn pay(mask: u32, bit: u32, concrete: f64) -> f64 {
    if mask & (1 << bit) != 0 {
        kani::any()
    } else {
        concrete
    }
}

/// SYM: bit mask of the payloads that are symbolic: 0 t, 1 v, 2 rho, 3 pd[0], 4 nt, 5 n[0], 6 x[0], 7 p
/// (symbolic f64 arithmetic is bit-blasted by CBMC: all eight at once exceed 14 GB, so the all-bit-pattern
/// quantification is per payload, the others being fixed powers of two)
pub fn c03_body<const NC: usize, const LEN: usize, const SYM: u32>(fl: [bool; 8]) {
    let [ft, fv, frho, fpd, fnt, fn_, fx, fp] = fl;
    let eos = Arc::new(NoResidual(NC));
    let (t, v, rho, nt, p): (f64, f64, f64, f64, f64) = (pay(SYM, 0, 256.0), pay(SYM, 1, 64.0), pay(SYM, 2, 0.5), pay(SYM, 4, 8.0), pay(SYM, 7, 2.0));
    let mut pd = [0.25; LEN];
    let mut n = [4.0; LEN];
    let mut x = [0.5; LEN];
    pd[0] = pay(SYM, 3, 0.125);
    n[0] = pay(SYM, 5, 2.0);
    x[0] = pay(SYM, 6, 0.25);
    let pd_arr = Density::from_reduced(Array1::from(pd.to_vec()));
    let n_arr = Moles::from_reduced(Array1::from(n.to_vec()));
    let x_arr = Array1::from(x.to_vec());
    let o_t = if ft { Some(Temperature::from_reduced(t)) } else { None };
    let o_v = if fv { Some(Volume::from_reduced(v)) } else { None };
    let o_rho = if frho { Some(Density::from_reduced(rho)) } else { None };
    let o_pd = if fpd { Some(&pd_arr) } else { None };
    let o_nt = if fnt { Some(Moles::from_reduced(nt)) } else { None };
    let o_n = if fn_ { Some(&n_arr) } else { None };
    let o_x = if fx { Some(&x_arr) } else { None };
    let o_p = if fp { Some(Pressure::from_reduced(p)) } else { None };
    let r = State::new(
        &eos, o_t, o_v, o_rho, o_pd, o_nt, o_n, o_x, o_p,
        DensityInitialization::InitialDensity(Density::from_reduced(-1.0)),
    );
    // ---- expected verdict, from the documented hierarchy
    let has_rho = frho || fpd;
    let has_n0 = fnt || fn_;
    let over = (frho && fpd) || (fn_ && fnt) || (has_rho && has_n0 && fv) || (fpd && fn_) || ((fpd || fn_) && fx);
    let comp = fpd || fn_ || fx;
    if over || (!comp && NC > 1) {
        assert!(matches!(r, Err(EosError::UndeterminedState(_))));
    } else if LEN != NC && comp {
        // component-count mismatch is never turned into a state
        assert!(r.is_err());
    } else {
        let mut has_n = has_n0 || (has_rho && fv);
        if !fv && !has_n {
            has_n = true; // reference amount
        }
        let has_v = fv || (has_rho && has_n);
        if has_v && ft && has_n {
            // non-iterative route
            match &r {
                Ok(s) => {
                    let tt = s.temperature.to_reduced();
                    assert!(same_bits(tt, Temperature::from_reduced(t).to_reduced()));
                    let vv = s.volume.to_reduced();
                    assert!(valid(tt) && valid(vv));
                    if fv {
                        assert!(same_bits(vv, Volume::from_reduced(v).to_reduced()));
                    }
                    let m = s.moles.to_reduced();
                    let mut sum = 0.0;
                    for i in 0..NC {
                        assert!(valid(m[i]));
                        if fn_ {
                            assert!(same_bits(m[i], Moles::from_reduced(n[i]).to_reduced()));
                        }
                        sum += m[i];
                    }
                    assert!(same_bits(s.total_moles.to_reduced(), s.moles.sum().to_reduced()));
                    assert!(same_bits(s.density.to_reduced(), (s.total_moles / s.volume).to_reduced()));
                    let _ = sum;
                    kani::cover!(true);
                }
                Err(EosError::InvalidState(_, _, _)) => {
                    if fv && fn_ {
                        // no spurious rejection: some given value really is non-finite or sign-negative
                        let mut all = valid(Temperature::from_reduced(t).to_reduced()) && valid(Volume::from_reduced(v).to_reduced());
                        for i in 0..NC {
                            all = all && valid(Moles::from_reduced(n[i]).to_reduced());
                        }
                        assert!(!all);
                    }
                }
                Err(_) => assert!(false),
            }
        } else if fp && ft && (has_n || has_v) {
            // the hierarchy selects the density iteration (here: its input check fires for rho0 = -1)
            match &r {
                Err(EosError::InvalidState(_, what, _)) => {
                    kani::cover!(true);
                    let _ = what;
                }
                Err(_) => {}
                Ok(_) => assert!(false),
            }
        } else {
            assert!(matches!(r, Err(EosError::UndeterminedState(_))));
        }
    }
    if r.is_err() {
        kani::cover!(true);
    }
    std::mem::forget(r);
}

macro_rules! c03 {
    ($name:ident, $nc:expr, $len:expr, $sym:expr, $fl:expr) => {
        #[kani::proof]
        #[kani::stub(std::hash::RandomState::new, fixed_random_state)]
        #[kani::unwind(8)]
        fn $name() {
            c03_body::<$nc, $len, $sym>($fl);
        }
    };
}
include!("c03_patterns.rs");

// C05-a: trivial-solution predicate over all pairs of valid 1-component states
#[kani::proof]
#[kani::stub(std::hash::RandomState::new, fixed_random_state)]
#[kani::unwind(6)]
fn c05_trivial_solution_1c() {
    use feos_core::PhaseEquilibrium;
    let eos = Arc::new(NoResidual(1));
    // T and V fixed (powers of two), amounts symbolic: every pair of densities is reachable through N
    let (t, v1, v2): (f64, f64, f64) = (256.0, 1.0, 1.0);
    let (n1, n2): (f64, f64) = (kani::any(), kani::any());
    let s1 = State::new_nvt(&eos, Temperature::from_reduced(t), Volume::from_reduced(v1), &Moles::from_reduced(arr1(&[n1])));
    let s2 = State::new_nvt(&eos, Temperature::from_reduced(t), Volume::from_reduced(v2), &Moles::from_reduced(arr1(&[n2])));
    if let (Ok(a), Ok(b)) = (&s1, &s2) {
        let r1 = a.partial_density.to_reduced()[0];
        let r2 = b.partial_density.to_reduced()[0];
        let triv = PhaseEquilibrium::<NoResidual, 2>::is_trivial_solution(a, b);
        if triv {
            // true only for densities within the stated relative window
            assert!((r2 / r1 - 1.0).abs() < 1e-5);
        }
        if r1 > 0.0 && r1.is_finite() && same_bits(r1, r2) {
            assert!(triv); // a copy is always trivial
        }
        if r1 > 0.0 && r2 > 2.0 * r1 && r2.is_finite() {
            assert!(!triv); // clearly distinct phases are never called trivial
        }
        kani::cover!(triv);
        kani::cover!(!triv && r1 > 0.0 && r2 > 0.0);
    }
    std::mem::forget(s1);
    std::mem::forget(s2);
}

/// C03-b: new_nvt over ALL f64 bit patterns of T, V, N (1 component): Ok echoes the inputs bitwise and they are
/// finite and not sign-negative; Err(InvalidState) only if one of them is non-finite or sign-negative
#[kani::proof]
#[kani::stub(std::hash::RandomState::new, fixed_random_state)]
#[kani::unwind(6)]
fn c03_new_nvt_all_f64_1c() {
    let eos = Arc::new(NoResidual(1));
    let (t, v, n): (f64, f64, f64) = (kani::any(), kani::any(), kani::any());
    let r = State::new_nvt(&eos, Temperature::from_reduced(t), Volume::from_reduced(v), &Moles::from_reduced(arr1(&[n])));
    let (tq, vq, nq) = (Temperature::from_reduced(t).to_reduced(), Volume::from_reduced(v).to_reduced(), Moles::from_reduced(n).to_reduced());
    match &r {
        Ok(s) => {
            assert!(same_bits(s.temperature.to_reduced(), tq));
            assert!(same_bits(s.volume.to_reduced(), vq));
            assert!(same_bits(s.moles.to_reduced()[0], nq));
            assert!(valid(tq) && valid(vq) && valid(nq));
            kani::cover!(true);
        }
        Err(EosError::InvalidState(_, _, _)) => {
            assert!(!(valid(tq) && valid(vq) && valid(nq)));
            kani::cover!(true);
        }
        Err(_) => assert!(false),
    }
    std::mem::forget(r);
}
