// C03-a/b: State::new over option subsets (one harness per concrete flag pattern, all payloads symbolic f64)
// flags: [t, v, rho, pd, nt, n, x, p]; `nc` components of the model; `len` length of the array inputs.
use feos_core::{DensityInitialization, EosError, NoResidual};
use quantity::{Density, Pressure};

fn same_bits(a: f64, b: f64) -> bool {
    a.to_bits() == b.to_bits()
}
fn valid(x: f64) -> bool {
    x.is_finite() && !x.is_sign_negative()
}

/// payload: symbolic f64 (any bit pattern) if selected by the mask, else a fixed power of two
fn pay(mask: u32, bit: u32, concrete: f64) -> f64 {
    // bits 8.. of the mask select one payload that takes a special value: ((bit + 1) << 3 | kind) << 8
    let spec = mask >> 8;
    if spec != 0 && (spec >> 3) - 1 == bit {
        return match spec & 7 {
            0 => f64::NAN,
            1 => -0.0,
            2 => f64::INFINITY,
            3 => -1.0,
            _ => f64::NEG_INFINITY,
        };
    }
    if mask & (1 << bit) != 0 {
        kani::any()
    } else {
        concrete
    }
}

/// SYM: bit mask of the payloads that are symbolic: 0 t, 1 v, 2 rho, 3 pd[0], 4 nt, 5 n[0], 6 x[0], 7 p
/// (symbolic f64 arithmetic is bit-blasted by CBMC: all eight at once exceed 14 GB, so the all-bit-pattern
/// quantification is per payload, the others being fixed powers of two)
pub fn c03_body<const NC: usize, const LEN: usize, const SYM: u32>(fl: [bool; 8]) {
    let [ft, fv, frho, fpd, fnt, fn_, fx, fp] = fl;
    let eos = Arc::new(NoResidual(NC));
    let (t, v, rho, nt, p): (f64, f64, f64, f64, f64) = (pay(SYM, 0, 256.0), pay(SYM, 1, 64.0), pay(SYM, 2, 0.5), pay(SYM, 4, 8.0), pay(SYM, 7, 2.0));
    let mut pd = [0.25; LEN];
    let mut n = [4.0; LEN];
    let mut x = [0.5; LEN];
    pd[0] = pay(SYM, 3, 0.125);
    n[0] = pay(SYM, 5, 2.0);
    x[0] = pay(SYM, 6, 0.25);
    let pd_arr = Density::from_reduced(Array1::from(pd.to_vec()));
    let n_arr = Moles::from_reduced(Array1::from(n.to_vec()));
    let x_arr = Array1::from(x.to_vec());
    let o_t = if ft { Some(Temperature::from_reduced(t)) } else { None };
    let o_v = if fv { Some(Volume::from_reduced(v)) } else { None };
    let o_rho = if frho { Some(Density::from_reduced(rho)) } else { None };
    let o_pd = if fpd { Some(&pd_arr) } else { None };
    let o_nt = if fnt { Some(Moles::from_reduced(nt)) } else { None };
    let o_n = if fn_ { Some(&n_arr) } else { None };
    let o_x = if fx { Some(&x_arr) } else { None };
    let o_p = if fp { Some(Pressure::from_reduced(p)) } else { None };
    let r = State::new(
        &eos, o_t, o_v, o_rho, o_pd, o_nt, o_n, o_x, o_p,
        DensityInitialization::InitialDensity(Density::from_reduced(-1.0)),
    );
    // ---- expected verdict, from the documented hierarchy
    let has_rho = frho || fpd;
    let has_n0 = fnt || fn_;
    let over = (frho && fpd) || (fn_ && fnt) || (has_rho && has_n0 && fv) || (fpd && fn_) || ((fpd || fn_) && fx);
    let comp = fpd || fn_ || fx;
    if over || (!comp && NC > 1) {
        assert!(matches!(r, Err(EosError::UndeterminedState(_))));
    } else if LEN != NC && comp {
        // component-count mismatch is never turned into a state
        assert!(r.is_err());
    } else {
        let mut has_n = has_n0 || (has_rho && fv);
        if !fv && !has_n {
            has_n = true; // reference amount
        }
        let has_v = fv || (has_rho && has_n);
        if has_v && ft && has_n {
            // non-iterative route
            match &r {
                Ok(s) => {
                    let tt = s.temperature.to_reduced();
                    assert!(same_bits(tt, Temperature::from_reduced(t).to_reduced()));
                    let vv = s.volume.to_reduced();
                    assert!(valid(tt) && valid(vv));
                    if fv {
                        assert!(same_bits(vv, Volume::from_reduced(v).to_reduced()));
                    }
                    let m = s.moles.to_reduced();
                    let mut sum = 0.0;
                    for i in 0..NC {
                        assert!(valid(m[i]));
                        if fn_ {
                            assert!(same_bits(m[i], Moles::from_reduced(n[i]).to_reduced()));
                        }
                        sum += m[i];
                    }
                    assert!(same_bits(s.total_moles.to_reduced(), s.moles.sum().to_reduced()));
                    assert!(same_bits(s.density.to_reduced(), (s.total_moles / s.volume).to_reduced()));
                    let _ = sum;
                    kani::cover!(true);
                }
                Err(EosError::InvalidState(_, _, _)) => {
                    if fv && fn_ {
                        // no spurious rejection: some given value really is non-finite or sign-negative
                        let mut all = valid(Temperature::from_reduced(t).to_reduced()) && valid(Volume::from_reduced(v).to_reduced());
                        for i in 0..NC {
                            all = all && valid(Moles::from_reduced(n[i]).to_reduced());
                        }
                        assert!(!all);
                    }
                }
                Err(_) => assert!(false),
            }
        } else if fp && ft && (has_n || has_v) {
            // the hierarchy selects the density iteration (here: its input check fires for rho0 = -1)
            match &r {
                Err(EosError::InvalidState(_, what, _)) => {
                    kani::cover!(true);
                    let _ = what;
                }
                Err(_) => {}
                Ok(_) => assert!(false),
            }
        } else {
            assert!(matches!(r, Err(EosError::UndeterminedState(_))));
        }
    }
    if r.is_err() {
        kani::cover!(true);
    }
    std::mem::forget(r);
}

macro_rules! c03 {
    ($name:ident, $nc:expr, $len:expr, $sym:expr, $fl:expr) => {
        #[kani::proof]
        #[kani::stub(std::hash::RandomState::new, fixed_random_state)]
        #[kani::unwind(8)]
        fn $name() {
            c03_body::<$nc, $len, $sym>($fl);
        }
    };
}
include!("c03_patterns.rs");

