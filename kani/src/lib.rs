//! E-K: Kani harnesses over the public API of feos-core's State layer.
//!
//! Verification model `PolyEos`: residual and ideal-gas Helmholtz energies that are polynomials of
//! degree <= 3 in (V, T, N0, N1) with integer coefficients.  At the power-of-two state used below every
//! intermediate of the dual-number evaluation is an exactly representable number, so every getter can be
//! compared BITWISE with the closed-form partial derivative computed here from the exponent table.
#![allow(clippy::all)]

#[cfg(kani)]
mod h {
    use feos_core::{Components, Contributions, IdealGas, ReferenceSystem, Residual, State, StateHD};
    use ndarray::{arr1, Array1, ScalarOperand};
    use num_dual::DualNum;
    use quantity::{Moles, Temperature, Volume};
    use std::sync::Arc;

    pub fn fixed_random_state() -> std::hash::RandomState {
        unsafe { std::mem::transmute::<(u64, u64), std::hash::RandomState>((1, 2)) }
    }

    /// exponents (V, T, N0, N1) of the monomials of A_res
    pub const K: usize = 14;
    pub const MONO: [[i32; 4]; K] = [
        [1, 0, 0, 0],
        [0, 1, 0, 0],
        [2, 0, 0, 0],
        [0, 2, 0, 0],
        [1, 1, 0, 0],
        [1, 0, 1, 0],
        [1, 0, 0, 1],
        [0, 1, 1, 0],
        [0, 1, 0, 1],
        [0, 0, 1, 1],
        [0, 0, 2, 0],
        [0, 0, 0, 2],
        [3, 0, 0, 0],
        [0, 3, 0, 0],
    ];
    /// generic-position coefficients (distinct primes): every derivative key has a distinct value
    pub const PRIMES: [f64; K] = [3.0, 5.0, 7.0, 11.0, 13.0, 17.0, 19.0, 23.0, 29.0, 31.0, 37.0, 41.0, 43.0, 47.0];
    pub const IDEAL: [f64; K] = [53.0, 59.0, 61.0, 67.0, 71.0, 73.0, 79.0, 83.0, 89.0, 97.0, 101.0, 103.0, 107.0, 109.0];
    /// state: all powers of two
    pub const X: [f64; 4] = [4.0, 2.0, 8.0, 16.0];

    pub struct PolyEos {
        pub c: [f64; K],
        pub ci: [f64; K],
    }
    fn poly<D: DualNum<f64> + Copy>(c: &[f64; K], s: &StateHD<D>) -> D {
        let x = [s.volume, s.temperature, s.moles[0], s.moles[1]];
        let mut a = D::zero();
        for k in 0..K {
            let mut m = D::one();
            for j in 0..4 {
                // repeated multiplication (powi is an intrinsic that CBMC over-approximates)
                for _ in 0..MONO[k][j] {
                    m = m * x[j];
                }
            }
            a += m * c[k];
        }
        a
    }
    impl Components for PolyEos {
        fn components(&self) -> usize {
            2
        }
        fn subset(&self, _: &[usize]) -> Self {
            unimplemented!()
        }
    }
    impl Residual for PolyEos {
        fn compute_max_density(&self, _: &Array1<f64>) -> f64 {
            1.0
        }
        fn residual_helmholtz_energy_contributions<D: DualNum<f64> + Copy + ScalarOperand>(
            &self,
            s: &StateHD<D>,
        ) -> Vec<(String, D)> {
            vec![(String::new(), poly(&self.c, s) / s.temperature)]
        }
    }
    impl IdealGas for PolyEos {
        fn ln_lambda3<D: DualNum<f64> + Copy>(&self, t: D) -> Array1<D> {
            arr1(&[t, t])
        }
        fn ideal_gas_model(&self) -> String {
            String::new()
        }
        // polynomial ideal part (the provided method uses ln, which CBMC over-approximates)
        fn ideal_gas_helmholtz_energy<D: DualNum<f64> + Copy>(&self, s: &StateHD<D>) -> D {
            poly(&self.ci, s) / s.temperature
        }
    }

    /// cheapest model with pairwise distinct, non-zero derivatives of every order the State layer requests:
    /// A = V^3 T^3 N0^2 N1^2 (one monomial). Used for the getter-level history harnesses (C11), where three states
    /// and four evaluations per harness made the 14-monomial model too expensive for CBMC's symbolic execution.
    pub struct MonoEos;
    pub const MEXP: [i32; 4] = [3, 3, 2, 2];
    impl Components for MonoEos {
        fn components(&self) -> usize {
            2
        }
        fn subset(&self, _: &[usize]) -> Self {
            unimplemented!()
        }
    }
    impl Residual for MonoEos {
        fn compute_max_density(&self, _: &Array1<f64>) -> f64 {
            1.0
        }
        fn residual_helmholtz_energy_contributions<D: DualNum<f64> + Copy + ScalarOperand>(
            &self,
            s: &StateHD<D>,
        ) -> Vec<(String, D)> {
            let (v, t, n0, n1) = (s.volume, s.temperature, s.moles[0], s.moles[1]);
            // beta A = A / T = V^3 T^2 N0^2 N1^2
            let a = v * v * v * t * t * n0 * n0 * n1 * n1;
            vec![(String::new(), a)]
        }
    }
    /// closed-form derivative of V^3 T^3 N0^2 N1^2 at X
    pub fn dmono(o: [u32; 4]) -> f64 {
        let mut m = 1.0;
        for j in 0..4 {
            let e = MEXP[j];
            if (e as u32) < o[j] {
                return 0.0;
            }
            m *= falling(e, o[j]);
            for _ in 0..(e - o[j] as i32) {
                m *= X[j];
            }
        }
        m
    }
    pub fn mono_state() -> State<MonoEos> {
        let eos = Arc::new(MonoEos);
        State::new_nvt(
            &eos,
            Temperature::from_reduced(X[1]),
            Volume::from_reduced(X[0]),
            &Moles::from_reduced(arr1(&[X[2], X[3]])),
        )
        .unwrap()
    }

    fn falling(e: i32, o: u32) -> f64 {
        let mut f = 1.0;
        for i in 0..o as i32 {
            f *= (e - i) as f64;
        }
        f
    }
    /// closed-form partial derivative of sum_k c_k x^e_k of orders `o` at X
    pub fn dpoly(c: &[f64; K], o: [u32; 4]) -> f64 {
        let mut a = 0.0;
        for k in 0..K {
            let mut m = c[k];
            for j in 0..4 {
                let e = MONO[k][j];
                if (e as u32) < o[j] {
                    m = 0.0;
                } else {
                    m *= falling(e, o[j]);
                    for _ in 0..(e - o[j] as i32) {
                        m *= X[j];
                    }
                }
            }
            a += m;
        }
        a
    }

    /// `nsym` leading coefficients symbolic small integers, the rest generic-position primes
    pub fn coeffs(nsym: usize, base: &[f64; K]) -> [f64; K] {
        let mut c = *base;
        for k in 0..nsym {
            let x: i8 = kani::any();
            kani::assume(x >= -3 && x <= 3);
            c[k] = x as f64;
        }
        c
    }
    pub fn state(c: [f64; K], ci: [f64; K]) -> State<PolyEos> {
        let eos = Arc::new(PolyEos { c, ci });
        State::new_nvt(
            &eos,
            Temperature::from_reduced(X[1]),
            Volume::from_reduced(X[0]),
            &Moles::from_reduced(arr1(&[X[2], X[3]])),
        )
        .unwrap()
    }
    /// exact equality of finite values (all quantities here are exactly representable; +0.0 == -0.0)
    pub fn same(a: f64, b: f64) -> bool {
        a.is_finite() && a == b
    }
    pub fn any_contrib() -> Contributions {
        let k: u8 = kani::any();
        kani::assume(k < 3);
        match k {
            0 => Contributions::IdealGas,
            1 => Contributions::Residual,
            _ => Contributions::Total,
        }
    }
    pub fn any_comp() -> usize {
        let i: u8 = kani::any();
        kani::assume(i < 2);
        i as usize
    }
    fn ord(v: u32, t: u32, n0: u32, n1: u32) -> [u32; 4] {
        [v, t, n0, n1]
    }
    fn dn(i: usize) -> [u32; 4] {
        if i == 0 {
            [0, 0, 1, 0]
        } else {
            [0, 0, 0, 1]
        }
    }
    fn add(a: [u32; 4], b: [u32; 4]) -> [u32; 4] {
        [a[0] + b[0], a[1] + b[1], a[2] + b[2], a[3] + b[3]]
    }

    use quantity::{Quantity, SIUnit};
    use typenum::Integer;
    /// expected value through the same unit conversion as the getter's own result
    /// (from_reduced(x).to_reduced() is (x*F)/F, not bitwise x)
    pub fn like<T: Integer, L: Integer, M: Integer, I: Integer, TH: Integer, N: Integer, J: Integer>(
        _q: &Quantity<f64, SIUnit<T, L, M, I, TH, N, J>>,
        x: f64,
    ) -> f64 {
        Quantity::<f64, SIUnit<T, L, M, I, TH, N, J>>::from_reduced(x).to_reduced()
    }
    pub fn like_a<D, T: Integer, L: Integer, M: Integer, I: Integer, TH: Integer, N: Integer, J: Integer>(
        _q: &Quantity<ndarray::Array<f64, D>, SIUnit<T, L, M, I, TH, N, J>>,
        x: f64,
    ) -> f64 {
        Quantity::<f64, SIUnit<T, L, M, I, TH, N, J>>::from_reduced(x).to_reduced()
    }
    /// (getter value, expected value) for a scalar / an element of an array quantity
    macro_rules! g {
        ($q:expr, $w:expr) => {{
            let q = $q;
            (q.to_reduced(), like(&q, $w))
        }};
    }
    macro_rules! ga {
        ($q:expr, $i:expr, $w:expr) => {{
            let q = $q;
            (q.to_reduced()[$i], like_a(&q, $w))
        }};
    }

    /// through the same unit conversion as the getter (from_reduced(x).to_reduced() is (x*F)/F)
    macro_rules! q {
        ($ty:ty, $x:expr) => {
            <$ty>::from_reduced($x).to_reduced()
        };
    }

    // ------------------------------------------------------------------------------------------
    // C01-a: residual getters return bitwise the closed-form derivative (sign, seeding, key)
    // ------------------------------------------------------------------------------------------
    macro_rules! res_getter {
        ($name:ident, $nsym:expr, |$s:ident, $c:ident| $pair:expr) => {
            #[kani::proof]
            #[kani::stub(std::hash::RandomState::new, fixed_random_state)]
            #[kani::unwind(16)]
            fn $name() {
                let $c = coeffs($nsym, &PRIMES);
                let $s = state($c, IDEAL);
                let (got, want): (f64, f64) = $pair;
                assert!(same(got, want));
                kani::cover!(true);
                std::mem::forget($s);
            }
        };
    }
    /// number of symbolic coefficients (compile-time, from the environment of the check driver)
    const NS: usize = match option_env!("VERIF_NSYM") {
        Some(s) => (s.as_bytes()[0] - b'0') as usize,
        None => 2,
    };
    /// symbolic coefficients per polynomial in the selector harnesses (three getter evaluations each)
    const NSEL: usize = if NS < 2 { NS } else { 2 };
    res_getter!(c01_pressure_res, NS, |s, c| g!(s.pressure(Contributions::Residual), -dpoly(&c, ord(1, 0, 0, 0))));
    res_getter!(c01_residual_entropy, NS, |s, c| g!(s.residual_entropy(), -dpoly(&c, ord(0, 1, 0, 0))));
    res_getter!(c01_dp_dv_res, NS, |s, c| g!(s.dp_dv(Contributions::Residual), -dpoly(&c, ord(2, 0, 0, 0))));
    res_getter!(c01_dp_dt_res, NS, |s, c| g!(s.dp_dt(Contributions::Residual), -dpoly(&c, ord(1, 1, 0, 0))));
    res_getter!(c01_ds_res_dt, NS, |s, c| g!(s.ds_res_dt(), -dpoly(&c, ord(0, 2, 0, 0))));
    res_getter!(c01_d2s_res_dt2, NS, |s, c| g!(s.d2s_res_dt2(), -dpoly(&c, ord(0, 3, 0, 0))));
    res_getter!(c01_d2p_dv2_res, NS, |s, c| g!(s.d2p_dv2(Contributions::Residual), -dpoly(&c, ord(3, 0, 0, 0))));

    // component-indexed getters: symbolic component index
    #[kani::proof]
    #[kani::stub(std::hash::RandomState::new, fixed_random_state)]
    #[kani::unwind(16)]
    fn c01_residual_chemical_potential() {
        let c = coeffs(NS, &PRIMES);
        let s = state(c, IDEAL);
        let i = any_comp();
        let (got, want) = ga!(s.residual_chemical_potential(), i, dpoly(&c, dn(i)));
        assert!(same(got, want));
        kani::cover!(i == 1);
        std::mem::forget(s);
    }
    #[kani::proof]
    #[kani::stub(std::hash::RandomState::new, fixed_random_state)]
    #[kani::unwind(16)]
    fn c01_dp_dni_res() {
        let c = coeffs(NS, &PRIMES);
        let s = state(c, IDEAL);
        let i = any_comp();
        let (got, want) = ga!(s.dp_dni(Contributions::Residual), i, -dpoly(&c, add(ord(1, 0, 0, 0), dn(i))));
        assert!(same(got, want));
        kani::cover!(i == 1);
        std::mem::forget(s);
    }
    #[kani::proof]
    #[kani::stub(std::hash::RandomState::new, fixed_random_state)]
    #[kani::unwind(16)]
    fn c01_dmu_res_dt() {
        let c = coeffs(NS, &PRIMES);
        let s = state(c, IDEAL);
        let i = any_comp();
        let (got, want) = ga!(s.dmu_res_dt(), i, dpoly(&c, add(ord(0, 1, 0, 0), dn(i))));
        assert!(same(got, want));
        kani::cover!(i == 1);
        std::mem::forget(s);
    }
    #[kani::proof]
    #[kani::stub(std::hash::RandomState::new, fixed_random_state)]
    #[kani::unwind(16)]
    fn c01_dmu_dni_res() {
        let c = coeffs(NS, &PRIMES);
        let s = state(c, IDEAL);
        let (i, j) = (any_comp(), any_comp());
        let (got, want) = ga!(s.dmu_dni(Contributions::Residual), [i, j], dpoly(&c, add(dn(i), dn(j))));
        assert!(same(got, want));
        kani::cover!(i == 1 && j == 0);
        std::mem::forget(s);
    }

    // ------------------------------------------------------------------------------------------
    // C10-a: selector: Total == IdealGas + Residual (same addition), each part the closed form
    // ------------------------------------------------------------------------------------------
    macro_rules! sel_getter {
        ($name:ident, |$s:ident, $k:ident, $w:ident| $pair:expr, $sign:expr, $o:expr) => {
            #[kani::proof]
            #[kani::stub(std::hash::RandomState::new, fixed_random_state)]
            #[kani::unwind(16)]
            fn $name() {
                let c = coeffs(NSEL, &PRIMES);
                let ci = coeffs(NSEL, &IDEAL);
                let $s = state(c, ci);
                let sg: f64 = $sign;
                let $k = Contributions::Total;
                let $w = sg * (dpoly(&ci, $o) + dpoly(&c, $o));
                let (tot, tot_w): (f64, f64) = $pair;
                let $k = Contributions::IdealGas;
                let $w = sg * dpoly(&ci, $o);
                let (ig, ig_w): (f64, f64) = $pair;
                let $k = Contributions::Residual;
                let $w = sg * dpoly(&c, $o);
                let (res, res_w): (f64, f64) = $pair;
                assert!(same(res, res_w));
                assert!(same(ig, ig_w));
                assert!(same(tot, tot_w));
                kani::cover!(true);
                std::mem::forget($s);
            }
        };
    }
    // getters that go through `get_or_compute_derivative` (properties.rs), one per derivative order's arm
    sel_getter!(c10_helmholtz_energy, |s, k, w| g!(s.helmholtz_energy(k), w), 1.0, ord(0, 0, 0, 0));
    sel_getter!(c10_entropy, |s, k, w| g!(s.entropy(k), w), -1.0, ord(0, 1, 0, 0));
    sel_getter!(c10_ds_dt, |s, k, w| g!(s.ds_dt(k), w), -1.0, ord(0, 2, 0, 0));
    sel_getter!(c10_d2s_dt2, |s, k, w| g!(s.d2s_dt2(k), w), -1.0, ord(0, 3, 0, 0));
    sel_getter!(c10_chemical_potential_1, |s, k, w| ga!(s.chemical_potential(k), 1, w), 1.0, ord(0, 0, 0, 1));
    sel_getter!(c10_dmu_dt_0, |s, k, w| ga!(s.dmu_dt(k), 0, w), 1.0, ord(0, 1, 1, 0));

    /// ideal-gas pressure is rho * R * T for all finite positive inputs (bitwise the same product),
    /// and Total = IdealGas + Residual for the pressure family
    #[kani::proof]
    #[kani::stub(std::hash::RandomState::new, fixed_random_state)]
    #[kani::unwind(16)]
    fn c10_pressure_selector() {
        use quantity::RGAS;
        let s = state(PRIMES, IDEAL);
        let ig = s.pressure(Contributions::IdealGas);
        let want = s.density * RGAS * s.temperature;
        assert!(same(ig.to_reduced(), want.to_reduced()));
        let tot = s.pressure(Contributions::Total);
        let res = s.pressure(Contributions::Residual);
        assert!(same(tot.to_reduced(), (ig + res).to_reduced()));
        let (a, b, c) = (s.dp_dv(Contributions::Total), s.dp_dv(Contributions::IdealGas), s.dp_dv(Contributions::Residual));
        assert!(same(a.to_reduced(), (b + c).to_reduced()));
        let (a, b, c) = (s.dp_dt(Contributions::Total), s.dp_dt(Contributions::IdealGas), s.dp_dt(Contributions::Residual));
        assert!(same(a.to_reduced(), (b + c).to_reduced()));
        let (a, b, c) = (s.d2p_dv2(Contributions::Total), s.d2p_dv2(Contributions::IdealGas), s.d2p_dv2(Contributions::Residual));
        assert!(same(a.to_reduced(), (b + c).to_reduced()));
        kani::cover!(true);
        std::mem::forget(s);
    }

    // ------------------------------------------------------------------------------------------
    // C11 (getter level): g after h, and g on a clone taken before/after h, equals g on a fresh state
    // ------------------------------------------------------------------------------------------
    /// (value, expected) of getter number `which` for component index i
    fn getter(s: &State<PolyEos>, c: &[f64; K], which: u8, i: usize) -> (f64, f64) {
        getter_g(s, &|o| dpoly(c, o), which, i)
    }
    fn getter_g<E: Residual>(s: &State<E>, d: &dyn Fn([u32; 4]) -> f64, which: u8, i: usize) -> (f64, f64) {
        let c = ();
        let _ = c;
        match which {
            0 => g!(s.residual_helmholtz_energy(), d(ord(0, 0, 0, 0))),
            1 => g!(s.pressure(Contributions::Residual), -d(ord(1, 0, 0, 0))),
            2 => g!(s.residual_entropy(), -d(ord(0, 1, 0, 0))),
            3 => ga!(s.residual_chemical_potential(), i, d(dn(i))),
            4 => g!(s.dp_dv(Contributions::Residual), -d(ord(2, 0, 0, 0))),
            5 => g!(s.ds_res_dt(), -d(ord(0, 2, 0, 0))),
            6 => g!(s.dp_dt(Contributions::Residual), -d(ord(1, 1, 0, 0))),
            7 => ga!(s.dp_dni(Contributions::Residual), i, -d(add(ord(1, 0, 0, 0), dn(i)))),
            8 => ga!(s.dmu_res_dt(), i, d(add(ord(0, 1, 0, 0), dn(i)))),
            9 => ga!(s.dmu_dni(Contributions::Residual), [i, 1 - i], d(add(dn(i), dn(1 - i)))),
            10 => ga!(s.dmu_dni(Contributions::Residual), [i, i], d(add(dn(i), dn(i)))),
            11 => g!(s.d2p_dv2(Contributions::Residual), -d(ord(3, 0, 0, 0))),
            _ => g!(s.d2s_res_dt2(), -d(ord(0, 3, 0, 0))),
        }
    }
    /// one harness per (predecessor h, final getter g): g evaluated after h on the same state must equal the closed
    /// form. Everything is concrete (one-monomial model, component indices i = 0 for h, j = 1 for g): CBMC's
    /// symbolic execution of one State getter costs about 5 min, a harness with clones and four evaluations did
    /// not finish in 40 min even when concrete. Clones are covered at the cache level (in-crate harness).
    macro_rules! hist2c {
        ($name:ident, $h:expr, $g:expr) => {
            #[kani::proof]
            #[kani::stub(std::hash::RandomState::new, fixed_random_state)]
            #[kani::unwind(16)]
            fn $name() {
                let s = mono_state();
                let _ = getter_g(&s, &dmono, $h, 0);
                let (a, wa) = getter_g(&s, &dmono, $g, 1);
                assert!(same(a, wa));
                kani::cover!(true);
                std::mem::forget(s);
            }
        };
    }
    include!("c11_pairs.rs");

    include!("c03.rs");
}
