//! Native replays (compiled library, f64) of candidate counterexamples found by the solver engines.
use feos_core::cubic::{PengRobinson, PengRobinsonParameters};
use feos_core::*;
use ndarray::arr1;
use quantity::*;
use serde_json::json;
use std::sync::Arc;

/// C03: `State::new_npt` returning Ok with a pressure that is not the requested one
/// (abstract path found by Spacer: density_iteration leaves its loop by exhaustion and returns Ok).
/// args: Tc pc omega T p rho0/rhomax
fn density_exhaustion(a: &[f64]) {
    let pr = Arc::new(PengRobinson::new(Arc::new(
        PengRobinsonParameters::new_simple(&[a[0]], &[a[1]], &[a[2]], &[44.0]).unwrap(),
    )));
    let moles = arr1(&[1.0]) * MOL;
    let maxrho = pr.max_density(Some(&moles)).unwrap();
    let r = State::new_npt(&pr, a[3] * KELVIN, a[4] * PASCAL, &moles, DensityInitialization::InitialDensity(a[5] * maxrho));
    let out = match r {
        Ok(s) => {
            let ps = s.pressure(Contributions::Total).convert_into(PASCAL);
            let err = ((ps - a[4]) / a[4]).abs();
            json!({"result": "Ok", "pressure_of_state": if ps.is_finite() { json!(ps) } else { json!(format!("{ps}")) },
                   "requested": a[4], "rho_over_rhomax": (s.density / maxrho).into_value(),
                   "reproduces_spec": err < 1e-6})
        }
        Err(e) => json!({"result": "Err", "error": format!("{e}")}),
    };
    println!("{out}");
}

/// scan a (T, p, rho0) grid for Ok-but-wrong results: args Tc pc omega n
fn density_scan(a: &[f64]) {
    let (tc, pc) = (a[0], a[1]);
    let pr = Arc::new(PengRobinson::new(Arc::new(
        PengRobinsonParameters::new_simple(&[tc], &[pc], &[a[2]], &[44.0]).unwrap(),
    )));
    let moles = arr1(&[1.0]) * MOL;
    let maxrho = pr.max_density(Some(&moles)).unwrap();
    let n = a[3] as usize;
    let mut bad = vec![];
    let mut cases = 0;
    for it in 0..n {
        let t = tc * (0.3 + 1.5 * it as f64 / (n - 1) as f64);
        for ip in 0..n {
            let p = pc * 10f64.powf(-5.0 + 8.0 * ip as f64 / (n - 1) as f64);
            for ir in 0..8 {
                let f = 10f64.powf(-6.0 + 6.0 * ir as f64 / 7.0);
                cases += 1;
                if let Ok(s) = State::new_npt(&pr, t * KELVIN, p * PASCAL, &moles, DensityInitialization::InitialDensity(f * maxrho)) {
                    let ps = s.pressure(Contributions::Total).convert_into(PASCAL);
                    let err = ((ps - p) / p).abs();
                    if !(err < 1e-6) && bad.len() < 5 {
                        bad.push(json!({"T": t, "p": p, "rho0_over_rhomax": f, "pressure_of_state": format!("{ps}")}));
                    }
                }
            }
        }
    }
    println!("{}", json!({"cases": cases, "ok_but_wrong": bad}));
}

/// C20: Loss::apply natively: args variant_index (r s)*
fn loss(a: &[f64]) {
    use feos::estimator::Loss;
    let mut vals = vec![];
    for c in a[1..].chunks(2) {
        let l = match a[0] as usize {
            0 => Loss::Linear,
            1 => Loss::softl1(c[1]),
            2 => Loss::huber(c[1]),
            3 => Loss::cauchy(c[1]),
            _ => Loss::arctan(c[1]),
        };
        let mut r = arr1(&[c[0]]);
        l.apply(&mut r);
        vals.push(r[0]);
    }
    println!("{}", json!({"values": vals}));
}

/// C16: reported volume vs integral of one with the grid's own weights: args geometry(0 cart,1 polar,2 spherical) n L
fn axis_volume(a: &[f64]) {
    use feos::hard_sphere::{FMTFunctional, FMTVersion};
    use feos_dft::{Axis, DFTProfile, Grid};
    use ndarray::{Array1, Ix1};
    let n = a[1] as usize;
    let len = a[2] * ANGSTROM;
    let axis = match a[0] as usize {
        0 => Axis::new_cartesian(n, len, None),
        1 => Axis::new_polar(n, len),
        _ => Axis::new_spherical(n, len),
    };
    let func = Arc::new(FMTFunctional::new(&arr1(&[1.0]), FMTVersion::WhiteBear));
    let bulk = State::new_nvt(&func, 300.0 * KELVIN, Volume::from_reduced(1000.0), &(arr1(&[100.0 / 6.02214076e23]) * MOL)).unwrap();
    let profile: DFTProfile<Ix1, FMTFunctional> = DFTProfile::new(Grid::new_1d(axis), &bulk, None, None, None);
    let ones = Quantity::<Array1<f64>, quantity::_Dimensionless>::new(Array1::ones(n));
    let integral = profile.integrate(&ones);
    println!("{}", json!({"volume": profile.volume().to_reduced(), "integral_of_one": integral.to_reduced()}));
}

/// C03-c: which root does new_npt return? PR propane at subcritical (T, p) points where both roots exist.
/// args: Tc pc omega
fn root_selection(a: &[f64]) {
    let pr = Arc::new(PengRobinson::new(Arc::new(
        PengRobinsonParameters::new_simple(&[a[0]], &[a[1]], &[a[2]], &[44.0]).unwrap(),
    )));
    let moles = arr1(&[1.0]) * MOL;
    let mut pts = vec![];
    for (tr, pr_) in [(0.7, 0.05), (0.7, 0.2), (0.8, 0.2), (0.8, 0.4), (0.9, 0.45), (0.9, 0.6), (0.6, 0.02), (0.6, 0.3)] {
        let (t, p) = (tr * a[0] * KELVIN, pr_ * a[1] * PASCAL);
        let l = State::new_npt(&pr, t, p, &moles, DensityInitialization::Liquid);
        let v = State::new_npt(&pr, t, p, &moles, DensityInitialization::Vapor);
        let n = State::new_npt(&pr, t, p, &moles, DensityInitialization::None);
        // reference roots, independent of the hints: explicit initial densities (ideal gas / maximum density)
        let maxrho = pr.max_density(Some(&moles)).unwrap();
        let rv = State::new_npt(&pr, t, p, &moles, DensityInitialization::InitialDensity(p / t / RGAS));
        let rl = State::new_npt(&pr, t, p, &moles, DensityInitialization::InitialDensity(maxrho));
        if let (Ok(l), Ok(v), Ok(n), Ok(rv), Ok(rl)) = (&l, &v, &n, &rv, &rl) {
            let il = State::new_npt(&pr, t, p, &moles, DensityInitialization::InitialDensity(rl.density * 1.02));
            let iv = State::new_npt(&pr, t, p, &moles, DensityInitialization::InitialDensity(rv.density * 0.98));
            let r = |s: &State<PengRobinson>| s.density.to_reduced();
            pts.push(json!({"Tr": tr, "pr": pr_, "rho_liquid": r(l), "rho_vapor": r(v), "rho_none": r(n), "ref_vapor": r(rv), "ref_liquid": r(rl),
                "g_ref_liquid": rl.residual_gibbs_energy().to_reduced(), "g_ref_vapor": rv.residual_gibbs_energy().to_reduced(),
                "g_liquid": l.residual_gibbs_energy().to_reduced(), "g_vapor": v.residual_gibbs_energy().to_reduced(),
                "rho_init_near_liquid": il.as_ref().map(r).unwrap_or(f64::NAN), "rho_init_near_vapor": iv.as_ref().map(r).unwrap_or(f64::NAN)}));
        }
    }
    println!("{}", json!({"points": pts}));
}

fn main() {
    let args: Vec<String> = std::env::args().collect();
    let nums: Vec<f64> = args[2..].iter().map(|x| x.parse().unwrap()).collect();
    match args[1].as_str() {
        "density_exhaustion" => density_exhaustion(&nums),
        "density_scan" => density_scan(&nums),
        "loss" => loss(&nums),
        "root_selection" => root_selection(&nums),
        "axis_volume" => axis_volume(&nums),
        o => panic!("unknown replay {o}"),
    }
}
