//! Native replays (compiled library, f64) of candidate counterexamples found by the solver engines.
use feos_core::cubic::{PengRobinson, PengRobinsonParameters};
use feos_core::*;
use ndarray::arr1;
use quantity::*;
use serde_json::json;
use std::sync::Arc;

/// C03: `State::new_npt` returning Ok with a pressure that is not the requested one
/// (abstract path found by Spacer: density_iteration leaves its loop by exhaustion and returns Ok).
/// args: Tc pc omega T p rho0/rhomax
fn density_exhaustion(a: &[f64]) {
    let pr = Arc::new(PengRobinson::new(Arc::new(
        PengRobinsonParameters::new_simple(&[a[0]], &[a[1]], &[a[2]], &[44.0]).unwrap(),
    )));
    let moles = arr1(&[1.0]) * MOL;
    let maxrho = pr.max_density(Some(&moles)).unwrap();
    let r = State::new_npt(&pr, a[3] * KELVIN, a[4] * PASCAL, &moles, DensityInitialization::InitialDensity(a[5] * maxrho));
    let out = match r {
        Ok(s) => {
            let ps = s.pressure(Contributions::Total).convert_into(PASCAL);
            let err = ((ps - a[4]) / a[4]).abs();
            json!({"result": "Ok", "pressure_of_state": if ps.is_finite() { json!(ps) } else { json!(format!("{ps}")) },
                   "requested": a[4], "rho_over_rhomax": (s.density / maxrho).into_value(),
                   "reproduces_spec": err < 1e-6})
        }
        Err(e) => json!({"result": "Err", "error": format!("{e}")}),
    };
    println!("{out}");
}

/// scan a (T, p, rho0) grid for Ok-but-wrong results: args Tc pc omega n
fn density_scan(a: &[f64]) {
    let (tc, pc) = (a[0], a[1]);
    let pr = Arc::new(PengRobinson::new(Arc::new(
        PengRobinsonParameters::new_simple(&[tc], &[pc], &[a[2]], &[44.0]).unwrap(),
    )));
    let moles = arr1(&[1.0]) * MOL;
    let maxrho = pr.max_density(Some(&moles)).unwrap();
    let n = a[3] as usize;
    let mut bad = vec![];
    let mut cases = 0;
    for it in 0..n {
        let t = tc * (0.3 + 1.5 * it as f64 / (n - 1) as f64);
        for ip in 0..n {
            let p = pc * 10f64.powf(-5.0 + 8.0 * ip as f64 / (n - 1) as f64);
            for ir in 0..8 {
                let f = 10f64.powf(-6.0 + 6.0 * ir as f64 / 7.0);
                cases += 1;
                if let Ok(s) = State::new_npt(&pr, t * KELVIN, p * PASCAL, &moles, DensityInitialization::InitialDensity(f * maxrho)) {
                    let ps = s.pressure(Contributions::Total).convert_into(PASCAL);
                    let err = ((ps - p) / p).abs();
                    if !(err < 1e-6) && bad.len() < 5 {
                        bad.push(json!({"T": t, "p": p, "rho0_over_rhomax": f, "pressure_of_state": format!("{ps}")}));
                    }
                }
            }
        }
    }
    println!("{}", json!({"cases": cases, "ok_but_wrong": bad}));
}

/// C20: Loss::apply natively: args variant_index (r s)*
fn loss(a: &[f64]) {
    use feos::estimator::Loss;
    let mut vals = vec![];
    for c in a[1..].chunks(2) {
        let l = match a[0] as usize {
            0 => Loss::Linear,
            1 => Loss::softl1(c[1]),
            2 => Loss::huber(c[1]),
            3 => Loss::cauchy(c[1]),
            _ => Loss::arctan(c[1]),
        };
        let mut r = arr1(&[c[0]]);
        l.apply(&mut r);
        vals.push(r[0]);
    }
    println!("{}", json!({"values": vals}));
}

/// C16: reported volume vs integral of one with the grid's own weights: args geometry(0 cart,1 polar,2 spherical) n L
fn axis_volume(a: &[f64]) {
    use feos::hard_sphere::{FMTFunctional, FMTVersion};
    use feos_dft::{Axis, DFTProfile, Grid};
    use ndarray::{Array1, Ix1};
    let n = a[1] as usize;
    let len = a[2] * ANGSTROM;
    let axis = match a[0] as usize {
        0 => Axis::new_cartesian(n, len, None),
        1 => Axis::new_polar(n, len),
        _ => Axis::new_spherical(n, len),
    };
    let func = Arc::new(FMTFunctional::new(&arr1(&[1.0]), FMTVersion::WhiteBear));
    let bulk = State::new_nvt(&func, 300.0 * KELVIN, Volume::from_reduced(1000.0), &(arr1(&[100.0 / 6.02214076e23]) * MOL)).unwrap();
    let profile: DFTProfile<Ix1, FMTFunctional> = DFTProfile::new(Grid::new_1d(axis), &bulk, None, None, None);
    let ones = Quantity::<Array1<f64>, quantity::_Dimensionless>::new(Array1::ones(n));
    let integral = profile.integrate(&ones);
    println!("{}", json!({"volume": profile.volume().to_reduced(), "integral_of_one": integral.to_reduced()}));
}

/// C03-c: which root does new_npt return? PR propane at subcritical (T, p) points where both roots exist.
/// args: Tc pc omega
fn root_selection(a: &[f64]) {
    let pr = Arc::new(PengRobinson::new(Arc::new(
        PengRobinsonParameters::new_simple(&[a[0]], &[a[1]], &[a[2]], &[44.0]).unwrap(),
    )));
    let moles = arr1(&[1.0]) * MOL;
    let mut pts = vec![];
    for (tr, pr_) in [(0.7, 0.05), (0.7, 0.2), (0.8, 0.2), (0.8, 0.4), (0.9, 0.45), (0.9, 0.6), (0.6, 0.02), (0.6, 0.3)] {
        let (t, p) = (tr * a[0] * KELVIN, pr_ * a[1] * PASCAL);
        let l = State::new_npt(&pr, t, p, &moles, DensityInitialization::Liquid);
        let v = State::new_npt(&pr, t, p, &moles, DensityInitialization::Vapor);
        let n = State::new_npt(&pr, t, p, &moles, DensityInitialization::None);
        // reference roots, independent of the hints: explicit initial densities (ideal gas / maximum density)
        let maxrho = pr.max_density(Some(&moles)).unwrap();
        let rv = State::new_npt(&pr, t, p, &moles, DensityInitialization::InitialDensity(p / t / RGAS));
        let rl = State::new_npt(&pr, t, p, &moles, DensityInitialization::InitialDensity(maxrho));
        if let (Ok(l), Ok(v), Ok(n), Ok(rv), Ok(rl)) = (&l, &v, &n, &rv, &rl) {
            let il = State::new_npt(&pr, t, p, &moles, DensityInitialization::InitialDensity(rl.density * 1.02));
            let iv = State::new_npt(&pr, t, p, &moles, DensityInitialization::InitialDensity(rv.density * 0.98));
            let r = |s: &State<PengRobinson>| s.density.to_reduced();
            pts.push(json!({"Tr": tr, "pr": pr_, "rho_liquid": r(l), "rho_vapor": r(v), "rho_none": r(n), "ref_vapor": r(rv), "ref_liquid": r(rl),
                "g_ref_liquid": rl.residual_gibbs_energy().to_reduced(), "g_ref_vapor": rv.residual_gibbs_energy().to_reduced(),
                "g_liquid": l.residual_gibbs_energy().to_reduced(), "g_vapor": v.residual_gibbs_energy().to_reduced(),
                "rho_init_near_liquid": il.as_ref().map(r).unwrap_or(f64::NAN), "rho_init_near_vapor": iv.as_ref().map(r).unwrap_or(f64::NAN)}));
        }
    }
    println!("{}", json!({"points": pts}));
}

/// State getters natively (PR propane/butane with k_ij): (a) each derivative getter vs a central finite difference of the
/// next-lower-order getter on FRESH states (C01), (b) Total vs IdealGas + Residual (C10), (c) each getter evaluated
/// after each other getter on the same state vs on a fresh state (C11 histories of length 2)
fn getter_checks(_a: &[f64]) {
    use feos_core::parameter::{Identifier, Parameter, PureRecord};
    use feos_core::cubic::PengRobinsonRecord;
    use ndarray::Array2;
    let recs = vec![
        PureRecord::new(Identifier::default(), 44.0, PengRobinsonRecord::new(369.8, 41.9e5, 0.15)),
        PureRecord::new(Identifier::default(), 58.0, PengRobinsonRecord::new(425.2, 37.9e5, 0.2)),
    ];
    let kij = Array2::from_shape_fn([2, 2], |(i, j)| if i == j { 0.0 } else { 0.03 });
    let pr = Arc::new(PengRobinson::new(Arc::new(PengRobinsonParameters::from_records(recs, Some(kij)).unwrap())));
    let (t0, v0, n0) = (300.0, 2.0e3, [3.0, 2.0]);
    let mk = |t: f64, v: f64, n: [f64; 2]| State::new_nvt(&pr, Temperature::from_reduced(t), Volume::from_reduced(v), &Moles::from_reduced(arr1(&n))).unwrap();
    let r = Contributions::Residual;
    // scalar views of the getters (reduced units)
    type G = Box<dyn Fn(&State<PengRobinson>) -> f64>;
    let getters: Vec<(&str, G)> = vec![
        ("residual_helmholtz_energy", Box::new(|s| s.residual_helmholtz_energy().to_reduced())),
        ("pressure", Box::new(move |s| s.pressure(r).to_reduced())),
        ("residual_entropy", Box::new(|s| s.residual_entropy().to_reduced())),
        ("residual_chemical_potential[0]", Box::new(|s| s.residual_chemical_potential().to_reduced()[0])),
        ("residual_chemical_potential[1]", Box::new(|s| s.residual_chemical_potential().to_reduced()[1])),
        ("dp_dv", Box::new(move |s| s.dp_dv(r).to_reduced())),
        ("dp_dt", Box::new(move |s| s.dp_dt(r).to_reduced())),
        ("dp_dni[0]", Box::new(move |s| s.dp_dni(r).to_reduced()[0])),
        ("dp_dni[1]", Box::new(move |s| s.dp_dni(r).to_reduced()[1])),
        ("dmu_dni[0,1]", Box::new(move |s| s.dmu_dni(r).to_reduced()[[0, 1]])),
        ("dmu_dni[1,0]", Box::new(move |s| s.dmu_dni(r).to_reduced()[[1, 0]])),
        ("dmu_dni[1,1]", Box::new(move |s| s.dmu_dni(r).to_reduced()[[1, 1]])),
        ("dmu_res_dt[0]", Box::new(|s| s.dmu_res_dt().to_reduced()[0])),
        ("ds_res_dt", Box::new(|s| s.ds_res_dt().to_reduced())),
        ("d2s_res_dt2", Box::new(|s| s.d2s_res_dt2().to_reduced())),
        ("d2p_dv2", Box::new(move |s| s.d2p_dv2(r).to_reduced())),
    ];
    // (a) finite differences on fresh states: getter = sign * d(lower)/d(direction)
    let h = 1e-5;
    let fd = |f: &dyn Fn(&State<PengRobinson>) -> f64, dir: usize| -> f64 {
        let (mut tp, mut vp, mut np) = (t0, v0, n0);
        let (mut tm, mut vm, mut nm) = (t0, v0, n0);
        let x0;
        match dir {
            0 => { x0 = t0; tp *= 1.0 + h; tm *= 1.0 - h; }
            1 => { x0 = v0; vp *= 1.0 + h; vm *= 1.0 - h; }
            k => { x0 = n0[k - 2]; np[k - 2] *= 1.0 + h; nm[k - 2] *= 1.0 - h; }
        }
        (f(&mk(tp, vp, np)) - f(&mk(tm, vm, nm))) / (2.0 * h * x0)
    };
    let get = |name: &str| -> &G { &getters.iter().find(|g| g.0 == name).unwrap().1 };
    // (getter, sign, lower getter, direction)
    let rules: Vec<(&str, f64, &str, usize)> = vec![
        ("pressure", -1.0, "residual_helmholtz_energy", 1), ("residual_entropy", -1.0, "residual_helmholtz_energy", 0),
        ("residual_chemical_potential[0]", 1.0, "residual_helmholtz_energy", 2), ("residual_chemical_potential[1]", 1.0, "residual_helmholtz_energy", 3),
        ("dp_dv", 1.0, "pressure", 1), ("dp_dt", 1.0, "pressure", 0), ("dp_dni[0]", 1.0, "pressure", 2), ("dp_dni[1]", 1.0, "pressure", 3),
        ("dmu_dni[0,1]", 1.0, "residual_chemical_potential[0]", 3), ("dmu_dni[1,0]", 1.0, "residual_chemical_potential[1]", 2),
        ("dmu_dni[1,1]", 1.0, "residual_chemical_potential[1]", 3), ("dmu_res_dt[0]", 1.0, "residual_chemical_potential[0]", 0),
        ("ds_res_dt", 1.0, "residual_entropy", 0), ("d2s_res_dt2", 1.0, "ds_res_dt", 0), ("d2p_dv2", 1.0, "dp_dv", 1),
    ];
    let mut fd_bad = vec![];
    for (g, sg, low, dir) in &rules {
        let an = get(g)(&mk(t0, v0, n0));
        let num = sg * fd(get(low).as_ref(), *dir);
        let dev = (an - num).abs() / an.abs().max(num.abs()).max(1e-300);
        if dev > 1e-5 {
            fd_bad.push(json!({"getter": g, "analytic": an, "finite_difference": num, "rel_dev": dev}));
        }
    }
    // (a') getters with an ideal-gas part: Joback ideal gas + PR residual, Total contribution
    {
        use feos::ideal_gas::{Joback, JobackRecord};
        use feos_core::EquationOfState;
        let jrecs = vec![
            PureRecord::new(Identifier::default(), 44.0, JobackRecord::new(-5.2, 0.35, -2.1e-4, 6.3e-8, -1.1e-11)),
            PureRecord::new(Identifier::default(), 58.0, JobackRecord::new(12.0, 0.2, 1.0e-4, -2.0e-8, 3.0e-12)),
        ];
        let ig = Arc::new(Joback::from_records(jrecs, None).unwrap());
        let eos = Arc::new(EquationOfState::new(ig, pr.clone()));
        type S2 = State<EquationOfState<Joback, PengRobinson>>;
        let mk2 = |t: f64, v: f64, n: [f64; 2]| State::new_nvt(&eos, Temperature::from_reduced(t), Volume::from_reduced(v), &Moles::from_reduced(arr1(&n))).unwrap();
        let c = Contributions::Total;
        type G2 = Box<dyn Fn(&S2) -> f64>;
        let gs: Vec<(&str, G2)> = vec![
            ("helmholtz_energy", Box::new(move |s| s.helmholtz_energy(c).to_reduced())),
            ("entropy", Box::new(move |s| s.entropy(c).to_reduced())),
            ("chemical_potential", Box::new(move |s| s.chemical_potential(c).to_reduced()[1])),
            ("dmu_dt", Box::new(move |s| s.dmu_dt(c).to_reduced()[1])),
            ("ds_dt", Box::new(move |s| s.ds_dt(c).to_reduced())),
            ("d2s_dt2", Box::new(move |s| s.d2s_dt2(c).to_reduced())),
        ];
        let fd2 = |f: &dyn Fn(&S2) -> f64, dir: usize| -> f64 {
            let (mut tp, mut tm, mut np, mut nm) = (t0, t0, n0, n0);
            let x0;
            if dir == 0 { x0 = t0; tp *= 1.0 + h; tm *= 1.0 - h; } else { x0 = n0[1]; np[1] *= 1.0 + h; nm[1] *= 1.0 - h; }
            (f(&mk2(tp, v0, np)) - f(&mk2(tm, v0, nm))) / (2.0 * h * x0)
        };
        let get2 = |name: &str| -> &G2 { &gs.iter().find(|g| g.0 == name).unwrap().1 };
        for (g, sg, low, dir) in [("entropy", -1.0, "helmholtz_energy", 0usize), ("chemical_potential", 1.0, "helmholtz_energy", 1), ("dmu_dt", 1.0, "chemical_potential", 0),
                                  ("ds_dt", 1.0, "entropy", 0), ("d2s_dt2", 1.0, "ds_dt", 0)] {
            let an = get2(g)(&mk2(t0, v0, n0));
            let num = sg * fd2(get2(low).as_ref(), dir);
            let dev = (an - num).abs() / an.abs().max(num.abs()).max(1e-300);
            if dev > 1e-5 {
                fd_bad.push(json!({"getter": g, "analytic": an, "finite_difference": num, "rel_dev": dev, "contribution": "Total (Joback + PR)"}));
            }
        }
    }
    // (b) selector
    let s = mk(t0, v0, n0);
    let mut sel_bad = vec![];
    let chk = |name: &str, tot: f64, ig: f64, res: f64, bad: &mut Vec<serde_json::Value>| {
        if (tot - (ig + res)).abs() > 1e-12 * tot.abs().max(1e-300) {
            bad.push(json!({"getter": name, "total": tot, "ideal": ig, "residual": res}));
        }
    };
    let (c_t, c_i, c_r) = (Contributions::Total, Contributions::IdealGas, Contributions::Residual);
    chk("pressure", s.pressure(c_t).to_reduced(), s.pressure(c_i).to_reduced(), s.pressure(c_r).to_reduced(), &mut sel_bad);
    chk("dp_dv", s.dp_dv(c_t).to_reduced(), s.dp_dv(c_i).to_reduced(), s.dp_dv(c_r).to_reduced(), &mut sel_bad);
    chk("dp_dt", s.dp_dt(c_t).to_reduced(), s.dp_dt(c_i).to_reduced(), s.dp_dt(c_r).to_reduced(), &mut sel_bad);
    chk("d2p_dv2", s.d2p_dv2(c_t).to_reduced(), s.d2p_dv2(c_i).to_reduced(), s.d2p_dv2(c_r).to_reduced(), &mut sel_bad);
    chk("dp_dni[0]", s.dp_dni(c_t).to_reduced()[0], s.dp_dni(c_i).to_reduced()[0], s.dp_dni(c_r).to_reduced()[0], &mut sel_bad);
    chk("dmu_dni[1,1]", s.dmu_dni(c_t).to_reduced()[[1, 1]], s.dmu_dni(c_i).to_reduced()[[1, 1]], s.dmu_dni(c_r).to_reduced()[[1, 1]], &mut sel_bad);
    // (b') selector and defining formulas of the getters of properties.rs (ideal-gas model needed): Joback + PR
    let mut comp_bad = vec![];
    {
        use feos::ideal_gas::{Joback, JobackRecord};
        use feos_core::EquationOfState;
        let jrecs = vec![
            PureRecord::new(Identifier::default(), 44.0, JobackRecord::new(-5.2, 0.35, -2.1e-4, 6.3e-8, -1.1e-11)),
            PureRecord::new(Identifier::default(), 58.0, JobackRecord::new(12.0, 0.2, 1.0e-4, -2.0e-8, 3.0e-12)),
        ];
        let ig = Arc::new(Joback::from_records(jrecs, None).unwrap());
        let eos = Arc::new(EquationOfState::new(ig, pr.clone()));
        let s = State::new_nvt(&eos, Temperature::from_reduced(t0), Volume::from_reduced(v0), &Moles::from_reduced(arr1(&n0))).unwrap();
        type S2 = State<EquationOfState<Joback, PengRobinson>>;
        type H = Box<dyn Fn(&S2, Contributions) -> f64>;
        let hs: Vec<(&str, H)> = vec![
            ("helmholtz_energy", Box::new(|s, c| s.helmholtz_energy(c).to_reduced())),
            ("entropy", Box::new(|s, c| s.entropy(c).to_reduced())),
            ("chemical_potential[1]", Box::new(|s, c| s.chemical_potential(c).to_reduced()[1])),
            ("dmu_dt[1]", Box::new(|s, c| s.dmu_dt(c).to_reduced()[1])),
            ("ds_dt", Box::new(|s, c| s.ds_dt(c).to_reduced())),
            ("d2s_dt2", Box::new(|s, c| s.d2s_dt2(c).to_reduced())),
            ("molar_isochoric_heat_capacity", Box::new(|s, c| s.molar_isochoric_heat_capacity(c).to_reduced())),
            ("dc_v_dt", Box::new(|s, c| s.dc_v_dt(c).to_reduced())),
            ("molar_isobaric_heat_capacity", Box::new(|s, c| s.molar_isobaric_heat_capacity(c).to_reduced())),
            ("molar_entropy", Box::new(|s, c| s.molar_entropy(c).to_reduced())),
            ("enthalpy", Box::new(|s, c| s.enthalpy(c).to_reduced())),
            ("molar_enthalpy", Box::new(|s, c| s.molar_enthalpy(c).to_reduced())),
            ("molar_helmholtz_energy", Box::new(|s, c| s.molar_helmholtz_energy(c).to_reduced())),
            ("internal_energy", Box::new(|s, c| s.internal_energy(c).to_reduced())),
            ("molar_internal_energy", Box::new(|s, c| s.molar_internal_energy(c).to_reduced())),
            ("gibbs_energy", Box::new(|s, c| s.gibbs_energy(c).to_reduced())),
            ("molar_gibbs_energy", Box::new(|s, c| s.molar_gibbs_energy(c).to_reduced())),
            ("compressibility", Box::new(|s, c| s.compressibility(c))),
            ("dp_drho", Box::new(|s, c| s.dp_drho(c).to_reduced())),
            ("specific_isochoric_heat_capacity", Box::new(|s, c| s.specific_isochoric_heat_capacity(c).to_reduced())),
            ("specific_isobaric_heat_capacity", Box::new(|s, c| s.specific_isobaric_heat_capacity(c).to_reduced())),
            ("specific_entropy", Box::new(|s, c| s.specific_entropy(c).to_reduced())),
            ("specific_enthalpy", Box::new(|s, c| s.specific_enthalpy(c).to_reduced())),
            ("specific_helmholtz_energy", Box::new(|s, c| s.specific_helmholtz_energy(c).to_reduced())),
            ("specific_internal_energy", Box::new(|s, c| s.specific_internal_energy(c).to_reduced())),
            ("specific_gibbs_energy", Box::new(|s, c| s.specific_gibbs_energy(c).to_reduced())),
        ];
        for (name, f) in &hs {
            let (tot, ig_, res) = (f(&s, Contributions::Total), f(&s, Contributions::IdealGas), f(&s, Contributions::Residual));
            if (tot - (ig_ + res)).abs() > 1e-10 * tot.abs().max(ig_.abs()).max(res.abs()).max(1e-300) {
                sel_bad.push(json!({"getter": name, "total": tot, "ideal": ig_, "residual": res, "model": "Joback + PR"}));
            }
        }
        // defining formulas of composite getters from the base getters, per selector
        let (t, v, n) = (t0, v0, n0[0] + n0[1]);
        let rg = RGAS.to_reduced();
        for c in [Contributions::IdealGas, Contributions::Residual, Contributions::Total] {
            let g = |name: &str| -> f64 { (hs.iter().find(|h| h.0 == name).unwrap().1)(&s, c) };
            let (p, dpdv, dpdt) = (s.pressure(c).to_reduced(), s.dp_dv(c).to_reduced(), s.dp_dt(c).to_reduced());
            let tt = Contributions::Total;
            let cp_def = match c {
                Contributions::Residual => t / n * (s.ds_res_dt().to_reduced() - s.dp_dt(tt).to_reduced().powi(2) / s.dp_dv(tt).to_reduced()) - rg,
                _ => t / n * (g("ds_dt") - dpdt * dpdt / dpdv),
            };
            let defs: Vec<(&str, f64)> = vec![
                ("molar_isochoric_heat_capacity", t * g("ds_dt") / n),
                ("dc_v_dt", (t * g("d2s_dt2") + g("ds_dt")) / n),
                ("molar_isobaric_heat_capacity", cp_def),
                ("molar_entropy", g("entropy") / n),
                ("enthalpy", t * g("entropy") + g("helmholtz_energy") + p * v),
                ("molar_enthalpy", (t * g("entropy") + g("helmholtz_energy") + p * v) / n),
                ("molar_helmholtz_energy", g("helmholtz_energy") / n),
                ("internal_energy", t * g("entropy") + g("helmholtz_energy")),
                ("molar_internal_energy", (t * g("entropy") + g("helmholtz_energy")) / n),
                ("gibbs_energy", p * v + g("helmholtz_energy")),
                ("molar_gibbs_energy", (p * v + g("helmholtz_energy")) / n),
                ("compressibility", p / (n / v * t * rg)),
                ("dp_drho", -v / (n / v) * dpdv),
            ];
            for (name, want) in defs {
                let got = g(name);
                if (got - want).abs() > 1e-10 * got.abs().max(want.abs()).max(1e-300) {
                    comp_bad.push(json!({"getter": name, "contribution": match c { Contributions::IdealGas => "IdealGas", Contributions::Residual => "Residual", _ => "Total" }, "returned": got, "definition": want}));
                }
            }
        }
    }
    // (c) histories of length 2 (same state, and a clone taken after the first call)
    let mut hist_bad = vec![];
    for (hn, hf) in &getters {
        for (gn, gf) in &getters {
            let fresh = gf(&mk(t0, v0, n0));
            let s = mk(t0, v0, n0);
            let _ = hf(&s);
            let c = s.clone();
            let after = gf(&s);
            let on_clone = gf(&c);
            // the real part of a dual-number evaluation may differ from the plain f64 evaluation in the last bits
            let differs = |x: f64| (x - fresh).abs() > 1e-10 * fresh.abs().max(1e-300);
            if differs(after) || differs(on_clone) {
                hist_bad.push(json!({"first": hn, "then": gn, "fresh": fresh, "after": after, "on_clone": on_clone}));
            }
        }
    }
    println!("{}", json!({"fd_mismatches": fd_bad, "selector_mismatches": sel_bad, "composite_mismatches": comp_bad, "history_mismatches": hist_bad, "getters": getters.len()}));
}

/// C03 (newton helper behind new_nph/new_nps/...): targets whose temperature iteration does not settle within the budget.
/// Joback + PR propane; (p, h) and (p, s) from (i) metastable vapour states found by new_npt with the vapour hint,
/// (ii) superheated liquid, (iii) states between the spinodals; requested again from the default start temperature.
/// A returned Ok state must reproduce the requested h / s.  args: Tc pc omega
fn newton_exhaustion(a: &[f64]) {
    use feos::ideal_gas::{Joback, JobackRecord};
    use feos_core::parameter::{Identifier, Parameter, PureRecord};
    let pr = Arc::new(PengRobinson::new(Arc::new(
        PengRobinsonParameters::new_simple(&[a[0]], &[a[1]], &[a[2]], &[44.0]).unwrap(),
    )));
    let jrecs = vec![PureRecord::new(Identifier::default(), 44.0, JobackRecord::new(-5.2, 0.35, -2.1e-4, 6.3e-8, -1.1e-11))];
    let ig = Arc::new(Joback::from_records(jrecs, None).unwrap());
    let eos = Arc::new(EquationOfState::new(ig, pr));
    let moles = arr1(&[1.0]) * MOL;
    let hints = [("none", DensityInitialization::None), ("vapor", DensityInitialization::Vapor), ("liquid", DensityInitialization::Liquid)];
    let mut wrong = vec![];
    let (mut n_ok, mut n_err, mut n_targets) = (0, 0, 0);
    let mut targets = vec![];
    for (tr, pr_) in [(0.9, 0.6), (0.9, 0.1), (0.95, 0.6), (0.85, 0.45), (0.8, 0.3), (0.7, 0.15)] {
        for (_, hint) in hints.iter().skip(1) {
            if let Ok(s) = State::new_npt(&eos, tr * a[0] * KELVIN, pr_ * a[1] * PASCAL, &moles, *hint) {
                targets.push(s);
            }
        }
    }
    let maxrho = eos.max_density(Some(&moles)).unwrap();
    for tr in [0.7, 0.8, 0.9] {
        for x in [0.15, 0.2, 0.25, 0.3] {
            if let Ok(s) = State::new_nvt(&eos, tr * a[0] * KELVIN, moles.sum() / (x * maxrho), &moles) {
                if s.pressure(Contributions::Total) > 0.0 * PASCAL {
                    targets.push(s);
                }
            }
        }
    }
    for r in &targets {
        let p = r.pressure(Contributions::Total);
        let h = r.molar_enthalpy(Contributions::Total);
        let s = r.molar_entropy(Contributions::Total);
        n_targets += 1;
        for (name, hint) in hints.iter() {
            for t0 in [None, Some(0.5 * a[0] * KELVIN)] {
                match State::new_nph(&eos, p, h, &moles, *hint, t0) {
                    Ok(st) => {
                        n_ok += 1;
                        let dev = ((st.molar_enthalpy(Contributions::Total) - h) / h).into_value().abs();
                        let dp = ((st.pressure(Contributions::Total) - p) / p).into_value().abs();
                        if !(dev < 1e-6 && dp < 1e-6) {
                            wrong.push(json!({"constructor": "new_nph", "hint": name, "T_target": r.temperature.to_reduced(), "p": p.convert_into(PASCAL),
                                "T_returned": st.temperature.to_reduced(), "rel_dev_h": dev, "rel_dev_p": dp}));
                        }
                    }
                    Err(_) => n_err += 1,
                }
                match State::new_nps(&eos, p, s, &moles, *hint, t0) {
                    Ok(st) => {
                        n_ok += 1;
                        let dev = ((st.molar_entropy(Contributions::Total) - s) / s).into_value().abs();
                        let dp = ((st.pressure(Contributions::Total) - p) / p).into_value().abs();
                        if !(dev < 1e-6 && dp < 1e-6) {
                            wrong.push(json!({"constructor": "new_nps", "hint": name, "T_target": r.temperature.to_reduced(), "p": p.convert_into(PASCAL),
                                "T_returned": st.temperature.to_reduced(), "rel_dev_s": dev, "rel_dev_p": dp}));
                        }
                    }
                    Err(_) => n_err += 1,
                }
            }
        }
    }
    println!("{}", json!({"targets": n_targets, "ok": n_ok, "err": n_err, "ok_but_wrong": wrong}));
}

fn main() {
    let args: Vec<String> = std::env::args().collect();
    let nums: Vec<f64> = args[2..].iter().map(|x| x.parse().unwrap()).collect();
    match args[1].as_str() {
        "density_exhaustion" => density_exhaustion(&nums),
        "density_scan" => density_scan(&nums),
        "loss" => loss(&nums),
        "root_selection" => root_selection(&nums),
        "getter_checks" => getter_checks(&nums),
        "axis_volume" => axis_volume(&nums),
        "newton_exhaustion" => newton_exhaustion(&nums),
        o => panic!("unknown replay {o}"),
    }
}
