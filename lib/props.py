"""Per-property checks (see DESIGN.md section 4)."""
import json, os, sys, time
from common import *
import es


def load_scope():
    p = os.path.join(VERIF, 'scope', 'es_scope.json')
    return json.load(open(p)) if os.path.exists(p) else {'outside_reach': {}}


def run_es(prop, tier, jobs, only, assumptions, functions, bounds):
    """common driver of all E-S checks"""
    out = Outcome(prop, tier, 'proof')
    if only:
        jobs = [j for j in jobs if any(o in j[0] for o in only)]
    try:
        build_s = es.build_symtrace()
    except Exception as e:
        out.inconclusive.append('symtrace build failed against the current /repo tree: %s' % str(e)[-1500:])
        out.coverage = {'obligations': 0, 'discharged': 0, 'checker_cmd': 'z3 (python API)', 'trusted_base': es.TRUSTED,
                        'evaluations': 0, 'distinct_nontrivial': 0}
        return out.finish()
    for j in jobs:
        j[2].setdefault('seed', seed())
    results = es.run_jobs(jobs)
    cov = es.decide(out, prop, results, scope=load_scope())
    import z3
    cov.update({
        'checker_cmd': 'z3 %s via python API, one Solver per obligation, timeout 3 s (relations) / 2 s (sign lemmas); driver: /verif/check %s --tier %s' % (z3.get_version_string(), prop, tier),
        'trusted_base': es.TRUSTED,
        'functions_encoded': functions,
        'bounds': bounds,
        'symtrace_build_s': round(build_s, 1),
        'evaluations': cov['solver_queries'],
        'distinct_nontrivial': cov['discharged'] - cov['hash_identical'],
        'rule': 'one obligation per (job, output relation); a job = one symbolic execution pair of the real generic code; '
                'non-trivial = decided by z3 through cut-point sweeping (not hash-identical DAG nodes)',
    })
    out.coverage = cov
    out.assumptions = es.ES_ASSUMPTIONS + assumptions
    return out.finish()


def check_C02(tier, only):
    s = seed()
    jobs = []
    for name, spec, n, T, V in es.systems(tier, s):
        jobs.append(('ext/' + name, {'job': 'ext', 'model': spec, 'x': es.state(n, T, V, s)}, {'budget_s': 900}))
    return run_es('C02', tier, jobs, only,
                  ['relation decided: A_k(T, lam V, lam N) = lam A_k(T, V, N) for every contribution k (first-order homogeneity <=> Euler/Gibbs-Duhem for exact derivatives)'],
                  ['Residual::residual_helmholtz_energy_contributions<D = Sym> of every model in lib/es.py:systems()'],
                  {'components': '2 (quick) / 1-3 (thorough)', 'dual_types': 'Sym', 'cone_depth': 5, 'degrees': '[-6, 6]', 'evaluation_points': 4})


def replay(prop, path):
    """re-run a recorded counterexample natively (E-S: symtrace f64 mode)"""
    r = json.load(open(path))
    rp = r['replay']
    if 'job' in rp:
        es.build_symtrace()
        nat = es.native(rp['job'], rp['x'])
        print(json.dumps(nat, indent=1))
        for nr in nat['rels']:
            if nr['name'].replace(' ', '_') == rp['relation']:
                want = nr['a'] * rp['x'][2] ** rp['expected_degree']
                dev = abs(nr['b'] - want) / max(abs(want), abs(nr['b']), 1e-300)
                print('relation %s: a=%r b=%r expected b = lam^%d a; rel.dev = %.3g' % (rp['relation'], nr['a'], nr['b'], rp['expected_degree'], dev))
                return 1 if dev > 1e-9 else 0
    return 2
