"""Per-property checks (see DESIGN.md section 4)."""
import json, os, sys, time, re, math
from common import *
import es


def load_scope():
    p = os.path.join(VERIF, 'scope', 'es_scope.json')
    return json.load(open(p)) if os.path.exists(p) else {'outside_reach': {}}


def es_part(out, prop, tier, jobs, only, assumptions, functions, bounds):
    """E-S part of a check: trace + sweep all jobs; fills `out`, returns the coverage dict"""
    if only:
        jobs = [j for j in jobs if any(o in j[0] for o in only)]
    import z3
    base = {'obligations': 0, 'discharged': 0, 'hash_identical': 0, 'solver_queries': 0, 'checker_cmd': 'z3 %s (python API)' % z3.get_version_string(), 'trusted_base': es.TRUSTED,
            'evaluations': 0, 'distinct_nontrivial': 0}
    if not jobs:
        return base
    try:
        build_s = es.build_symtrace()
    except Exception as e:
        out.inconclusive.append('symtrace build failed against the current /repo tree: %s' % str(e)[-1500:])
        return base
    for j in jobs:
        j[2].setdefault('seed', seed())
    if tier == 'thorough':
        # the jobs of the quick catalogue are obligations of the claim in both tiers; everything the thorough tier adds is
        # exploration beyond it: an undischarged relation or an unfinished job there is recorded, not claimed and does not
        # make the run inconclusive (a natively reproduced deviation is a violation in either case)
        try:
            qjobs = dict((j[0], json.dumps(j[1], sort_keys=True)) for j in getattr(es, 'jobs_' + prop)('quick', seed()))
        except Exception:
            qjobs = {}
        for j in jobs:
            # same name AND same job description as in the quick tier (the thorough tier re-uses some names with heavier
            # settings, e.g. permutation jobs with first-order dual numbers)
            if qjobs.get(j[0]) != json.dumps(j[1], sort_keys=True):
                j[2]['soft'] = True
    results = es.run_jobs(jobs)
    # robustness against timeout-dependent proofs: jobs with an undischarged in-scope obligation (and no native
    # deviation) are run once more with another evaluation seed and doubled solver timeouts
    scope = load_scope()
    redo = []
    for i, res in enumerate(results):
        if res['status'] != 'ok':
            continue
        tol = res['opts'].get('tol', 1e-9)
        for r in res['rels']:
            oid = '%s::%s' % (res['name'], r['name'])
            w = r.get('native_worst')
            if not r['proved'] and oid not in scope.get('outside_reach', {}) and not (w is not None and w['dev'] > tol) and not res['opts'].get('soft'):
                redo.append(i); break
    if redo:
        again = []
        for i in redo:
            n, j, o = jobs[i]
            o2 = dict(o); o2['seed'] = o.get('seed', 1) + 101; o2['qtimeout'] = 2 * o.get('qtimeout', 3000); o2['budget_s'] = 2 * o.get('budget_s', 600)
            again.append((n, j, o2))
        for i, r2 in zip(redo, es.run_jobs(again)):
            if r2['status'] == 'ok':
                # keep a relation proved in either run
                old = {r['name']: r for r in results[i]['rels']}
                for r in r2['rels']:
                    if not r['proved'] and old.get(r['name'], {}).get('proved'):
                        r.update(old[r['name']])
                results[i] = r2
    cov = es.decide(out, prop, results, scope=scope)
    cov.update({
        'checker_cmd': 'z3 %s via python API, one Solver per obligation, timeout 3 s (relations) / 0.3-2 s (sign lemmas); driver: /verif/check %s --tier %s' % (z3.get_version_string(), prop, tier),
        'trusted_base': es.TRUSTED,
        'functions_encoded': functions,
        'bounds': bounds,
        'symtrace_build_s': round(build_s, 1),
        'evaluations': cov['solver_queries'],
        'distinct_nontrivial': cov['discharged'] - cov['hash_identical'],
        'rule': 'one obligation per (job, output relation); a job = one symbolic execution pair of the real generic code; '
                'non-trivial = decided by z3 through cut-point sweeping (not hash-identical DAG nodes)',
    })
    out.assumptions += es.ES_ASSUMPTIONS + assumptions
    return cov


def ek_part(out, prop, tier, harnesses, only, assumptions, nsym=None, timeout=2400, procs=16, mem_gb=40, soft=()):
    """E-K part of a check: run Kani harnesses [(where, name)], fills `out`, returns coverage dict"""
    import ek
    if only:
        harnesses = [h for h in harnesses if any(o in h[1] for o in only)]
    if not harnesses:
        return {}
    if nsym is not None:
        os.environ['VERIF_NSYM'] = str(nsym)
        ENV['VERIF_NSYM'] = str(nsym)
    res = ek.run_harnesses(harnesses, timeout=timeout, procs=procs, mem_gb=mem_gb)
    cov = ek.decide(out, prop, res, soft=soft)
    cov['kani'] = 'cargo kani 0.68 / CBMC 6.11 (cadical), -Z stubbing, unwinding assertions on'
    out.assumptions += ['E-K: derivative cache container replaced by a fixed-capacity association array under cfg(kani) (std HashMap contract trusted)',
                        'E-K: std::hash::RandomState::new stubbed; single thread; only harness assertions, unwinding assertions and cover! decide (CBMC float side checks ignored)'] + assumptions
    return cov


def run_es(prop, tier, jobs, only, assumptions, functions, bounds):
    """check consisting of an E-S part only"""
    out = Outcome(prop, tier, 'proof')
    out.coverage = es_part(out, prop, tier, jobs, only, assumptions, functions, bounds)
    return out.finish()


def check_C02(tier, only):
    return run_es('C02', tier, es.jobs_C02(tier, seed()), only,
                  ['relation decided: A_k(T, lam V, lam N) = lam A_k(T, V, N) for every contribution k (first-order homogeneity <=> Euler/Gibbs-Duhem for exact derivatives)'],
                  ['Residual::residual_helmholtz_energy_contributions<D = Sym> of every model in lib/es.py:systems()'],
                  {'components': '2 (3 for the ionic ePC-SAFT system)', 'dual_types': 'Sym', 'cone_depth': 5, 'degrees': '[-6, 6]', 'evaluation_points': 4})


def replay(prop, path):
    """re-run a recorded counterexample against the natively compiled library (E-S: symtrace f64 mode; E-M: the
    native replay binary; E-K: re-run the failing Kani harness)"""
    r = json.load(open(path))
    rp = r['replay']
    print(r.get('what', ''))
    if 'job' in rp:
        es.build_symtrace()
        job = rp['job']
        if job.get('job') == 'twowit' and rp.get('native', {}).get('direction'):
            job = {'job': 'fd', 'model': job['model'], 'seed': [rp['native']['direction']], 'h': 1e-6}
        nat = es.native(job, rp['x'])
        print(json.dumps(nat, indent=1))
        for nr in nat['rels']:
            nm = nr['name'].split(':', 1)[1] if job['job'] == 'fd' else nr['name']
            if nm.replace(' ', '_') == rp['relation']:
                want = nr['a'] * rp['x'][2] ** rp.get('expected_degree', 0)
                dev = abs(nr['b'] - want) / max(abs(want), abs(nr['b']), 1e-300)
                print('relation %s: a=%r b=%r expected b = lam^%d a; rel.dev = %.3g' % (rp['relation'], nr['a'], nr['b'], rp.get('expected_degree', 0), dev))
                return 1 if dev > 1e-9 else 0
        return 2
    if 'native_cmd' in rp:
        build_native()
        p = sh(rp['native_cmd'], timeout=1200)
        print(p.stdout.strip())
        print('recorded:', json.dumps(rp.get('native_result', rp.get('native'))))
        print('(compare the two lines: the replay reproduces the violation iff the current output still shows the deviation)')
        return 0 if p.returncode == 0 else 2
    if 'harness' in rp:
        import ek
        res = ek.run_harnesses([(rp['where'], rp['harness'])], timeout=3000)
        rr = res[rp['harness']]
        print(rp['harness'], rr['status'], rr['failed'][:2])
        return 1 if rr['failed'] else 0
    return 2


def check_C09(tier, only):
    return run_es('C09', tier, es.jobs_C09(tier, seed()), only,
                  ['relations decided: permuted model at permuted amounts = original (per contribution; chemical potentials permute); zero-padded full model = Components::subset model; '
                   'subset model = model built directly from records[idx]; component entered twice = once with summed amounts',
                   'literal constants within 8 ulp are identified before encoding (f64 roundoff of re-ordered parameter preprocessing); count reported per job (merged_constants)'],
                  ['Residual::residual_helmholtz_energy_contributions<Sym / Dual<Sym>>', 'Components::subset', 'Parameter::from_records / from_multiple_json / ParameterHetero::from_segments'],
                  {'components': 3, 'permutations': '1 (quick) / all 5 (thorough)', 'subsets': '3 (quick) / 8 (thorough)', 'cone_depth': '5 (+3 for sums)'})


def check_C08(tier, only):
    jobs = es.jobs_C08(tier, seed())
    return run_es('C08', tier, jobs, only,
                  ['pairs decided: generic containers (ResidualModel enum, EquationOfState wrapper) vs bare model; ePC-SAFT without ions vs PC-SAFT; homosegmented GC parameters vs combined record; '
                   'Peng-Robinson residual pressure (dual-number derivative of the code) vs textbook closed form',
                   'functional-bulk vs equation-of-state pairs and SAFT-VRQ Mie(FH0) vs SAFT-VR Mie are outside the reach of the prover (scope/es_scope.json); for them only a natively reproduced deviation is reported',
                   'f64::EPSILON regularisers of the functionals are mapped to 0 in the functional pairs'],
                  ['residual_helmholtz_energy_contributions of both members of each pair', 'feos-derive Residual/Components derive macros (through ResidualModel)', 'PengRobinson::residual_helmholtz_energy<Dual<Sym>>'],
                  {'components': 2, 'pairs': len(jobs)})


def check_C13(tier, only):
    return run_es('C13', tier, es.jobs_C13(tier, seed()), only,
                  ['relation decided: the dual part that second_virial_coefficient reads at zero density equals the same dual part of the finite-density code path at rho = 0 (limit consistency), per contribution',
                   'StateHD::new_virial is pub(crate): the 10-line constructor is mirrored in symtrace/src/jobs.rs'],
                  ['Residual::residual_helmholtz_energy_contributions<HyperDual<Sym>> (B), <Dual3<Sym>> (C, thorough)'],
                  {'components': 2, 'molefracs': [0.4, 0.6], 'order': '2 (quick) / 2,3 (thorough)'})


def check_C10(tier, only):
    out = Outcome('C10', tier, 'proof')
    cov = es_part(out, 'C10', tier, es.jobs_C10(tier, seed()), only,
                  ['relations decided: A_ig(T,V,N) = sum_i A_ig^{pure i}(T,V,N_i) (ideal mixing) and A_ig(T, lam V, lam N) = lam A_ig (extensivity) for Joback and DIPPR models'],
                  ['IdealGas::ideal_gas_helmholtz_energy<Sym>', 'Joback::ln_lambda3', 'Dippr::ln_lambda3', 'Components::subset'],
                  {'components': 2})
    hs = C10_EK if tier == 'thorough' else []   # quick: the selector is decided for all getters on the MIR (getter map) in seconds
    cov['E-K'] = ek_part(out, 'C10', tier, [('ext', h) for h in hs], only,
                         ['C10-a: with PolyEos as Residual + IdealGas (polynomial ideal part overriding the provided ln-based method): f(Total) = f(IdealGas) + f(Residual) exactly and each part is its closed form, '
                          'for one getter per derivative order arm of get_or_compute_derivative (thorough tier only: 2+2 symbolic coefficients and all arms; a harness that exceeds 5400 s / 16 GB is recorded as undecided); p_ig = rho R T and Total = IdealGas + Residual for the pressure family (thorough)'],
                         nsym=2 if tier == 'thorough' else 0, timeout=5400 if tier == 'thorough' else 3000, procs=3, mem_gb=16, soft=C10_EK)
    if not only or 'getter_map' in only:
        import getters
        try:
            getters.getter_map_part(out, 'C10', cov, 'C10')
        except Exception:
            import traceback
            out.inconclusive.append('getter map failed: ' + traceback.format_exc()[-800:])
    out.coverage = cov
    return out.finish()


C01_EK = ['c01_pressure_res', 'c01_residual_entropy', 'c01_dp_dv_res', 'c01_dp_dt_res', 'c01_ds_res_dt', 'c01_d2s_res_dt2', 'c01_d2p_dv2_res',
          'c01_residual_chemical_potential', 'c01_dp_dni_res', 'c01_dmu_res_dt', 'c01_dmu_dni_res']


def check_C01(tier, only):
    out = Outcome('C01', tier, 'proof')
    cov = es_part(out, 'C01', tier, es.jobs_C01(tier, seed()), only,
                  ['C01-b: the trace of each model at two different witnesses denotes the same function (no state-dependent data concretised through .re())',
                   'C01-c: derivative parts computed through Dual/HyperDual/Dual3<Sym> have the homogeneity degree implied by first-order homogeneity of A (p, mu: 0; dp/dV, dmu/dN: -1; S: 1; ...)'],
                  ['residual_helmholtz_energy_contributions<Sym>, <Dual<Sym,f64>>, <HyperDual<Sym,f64>>, <Dual3<Sym,f64>>'],
                  {'components': 2})
    # quick: one getter through the compiled plumbing (second-derivative arm); key, sign and dual part of ALL getters are
    # decided on the MIR by the getter map in seconds; three harnesses made the quick check take 16 min
    # (measured 2026-10-02: a single getter harness costs 12 min end to end on this machine, which does not fit a 15-minute
    # quick check together with the E-S part: the Kani harnesses run in the thorough tier only)
    hs = C01_EK if tier == 'thorough' else []
    ekc = ek_part(out, 'C01', tier, [('ext', h) for h in hs], only,
                  ['C01-a: verification model PolyEos (polynomial A of degree <= 3 in V,T,N0,N1; %s leading coefficients symbolic in [-3,3], the rest generic-position primes), state at powers of two: '
                   'every getter must return exactly the closed-form partial derivative (sign, seeding, cache key); thorough: 11 getters, 3 at a time under 16 GB / 5400 s each, a harness beyond that is recorded as undecided' % ('2' if tier == 'thorough' else '1')],
                  nsym=2 if tier == 'thorough' else 1, timeout=5400 if tier == 'thorough' else 2400,
                  procs=3 if tier == 'thorough' else 16, mem_gb=16 if tier == 'thorough' else 40,
                  soft=C01_EK)
    cov['E-K'] = ekc
    if not only or 'getter_map' in only:
        import getters
        try:
            getters.getter_map_part(out, 'C01', cov, 'C01')
        except Exception:
            import traceback
            out.inconclusive.append('getter map failed: ' + traceback.format_exc()[-800:])
    out.coverage = cov
    return out.finish()


# ------------------------------------------------------------------------------------------------
# C03: E-M control slices (density_iteration, newton) [+ E-K constructor harnesses]
# ------------------------------------------------------------------------------------------------
NATIVE_DIR = os.path.join(VERIF, 'native')
NATIVE_BIN = os.path.join(WORK, 'native-target', 'release', 'feos-native-replay')


def build_native():
    sh('cp %s/Cargo.lock %s/Cargo.lock' % (REPO, NATIVE_DIR), check=True)
    p = sh('cargo build --release --target-dir %s' % os.path.join(WORK, 'native-target'), cwd=NATIVE_DIR, timeout=3000)
    if p.returncode != 0:
        raise RuntimeError('native replay crate build failed: ' + p.stderr[-2000:])


def c03_control_slices(out, cov):
    import mir
    path, dump_s = mir.dump_mir('feos-core')
    cov['_mir_path'] = path
    fs = mir.parse_functions(path, ['density_iteration', 'newton'])
    samples = []
    states = transitions = 0
    queries = []
    for w in ('density_iteration', 'newton'):
        if len(fs[w]) != 1:
            out.inconclusive.append('MIR: expected exactly one body of %s, found %d' % (w, len(fs[w])))
            continue
        f = fs[w][0]
        sl = mir.Slice.pruned(f)
        states += len(f.order); transitions += len(sl.rules)
        # the returned Result's discriminant is a tracked component (_0.t: 0 = Ok, 1 = Err; aggregates set it, moves copy
        # it, `?` residuals set Err, other calls havoc it), so the query is about the return terminator itself and does
        # not depend on where or how the Ok value is built
        ok_blocks = [bb for bb in f.order if f.blocks[bb] and f.blocks[bb][-1].strip() == 'return;' and 'cleanup' not in bb] if '_0.t' in sl.sort else []
        nc_blocks = sl.find_blocks(r'EosError::NotConverged\(')
        if not ok_blocks:
            out.inconclusive.append('MIR of %s: no return block with a tracked Result discriminant found' % w); continue
        for bb in ok_blocks:
            # vacuity: the Ok return is reachable at all
            r0, t0_, _ = sl.query_unreachable(bb, '(= v_0_t 0)')
            queries.append({'function': w, 'query': 'return block %s reachable with Ok (vacuity witness)' % bb, 'answer': r0, 'solver_s': round(t0_, 2)})
            if r0 != 'reachable':
                out.inconclusive.append('%s: vacuity witness failed: Ok return at %s not shown reachable (%s)' % (w, bb, r0))
            # the property: Ok is never returned when the iteration budget is exhausted without a passed tolerance test
            r1, t1, raw = sl.query_unreachable(bb, '(and vexh (= v_0_t 0))', timeout=300)
            queries.append({'function': w, 'query': 'return block %s reachable with Ok and exh (last Range::next poll returned None)' % bb, 'answer': r1, 'solver_s': round(t1, 2)})
            if r1 == 'reachable':
                # candidate path: confirm natively through the public API
                nat = None
                if w == 'density_iteration':
                    build_native()
                    p = sh([NATIVE_BIN, 'density_scan', '369.8', '41.9e5', '0.15', '24'], timeout=1200)
                    try:
                        nat = json.loads(p.stdout.strip().splitlines()[-1])
                    except Exception:
                        nat = None
                    cov['traces_validated_against_impl'] = cov.get('traces_validated_against_impl', 0) + 1
                    if nat and nat['ok_but_wrong']:
                        out.violation({'engine': 'E-M', 'site': 'density_iteration:exhaustion'},
                                      'C03: density_iteration returns Ok after exhausting its iteration budget (abstract path found by z3 Spacer on the MIR control slice); '
                                      'natively State::new_npt(PengRobinson propane, %s) returns Ok with pressure %s' % (
                                          {k: nat['ok_but_wrong'][0][k] for k in ('T', 'p', 'rho0_over_rhomax')}, nat['ok_but_wrong'][0]['pressure_of_state']),
                                      {'native_cmd': '%s density_scan 369.8 41.9e5 0.15 24' % NATIVE_BIN, 'native_result': nat, 'chc': raw[:200]})
                    else:
                        out.inconclusive.append('density_iteration: abstract exhaustion path to Ok exists but the native scan found no wrong state (abstraction too coarse)')
                elif w == 'newton':
                    build_native()
                    p = sh([NATIVE_BIN, 'newton_exhaustion', '369.8', '41.9e5', '0.15'], timeout=1200)
                    try:
                        nat = json.loads(p.stdout.strip().splitlines()[-1])
                    except Exception:
                        nat = None
                    cov['traces_validated_against_impl'] = cov.get('traces_validated_against_impl', 0) + 1
                    if nat and nat['ok_but_wrong']:
                        b = nat['ok_but_wrong'][0]
                        out.violation({'engine': 'E-M', 'site': 'newton:exhaustion'},
                                      'C03: the newton helper of State::new_nph/new_nps/... returns Ok after exhausting its iteration budget (abstract path found by z3 Spacer on the MIR control slice); '
                                      'natively State::%s(Joback + PengRobinson propane, p=%.6g Pa, target taken from the state at T=%.6g K, hint %s) returns Ok at T=%.6g K with a relative deviation %s from the requested value (%d such results)' % (
                                          b['constructor'], b['p'], b['T_target'], b['hint'], b['T_returned'], b.get('rel_dev_h', b.get('rel_dev_s')), len(nat['ok_but_wrong'])),
                                      {'native_cmd': '%s newton_exhaustion 369.8 41.9e5 0.15' % NATIVE_BIN, 'native_result': nat, 'chc': raw[:200]})
                    else:
                        out.inconclusive.append('newton: abstract exhaustion path to Ok exists but the native scan found no wrong state (abstraction too coarse, or scan too narrow)')
                else:
                    out.inconclusive.append('%s: abstract path to Ok after exhaustion; no native replay available for this function' % w)
            elif r1 != 'unreachable':
                out.inconclusive.append('%s: Spacer did not decide the exhaustion query (%s)' % (w, r1))
        for bb in nc_blocks:
            r2, t2, _ = sl.query_unreachable(bb, timeout=60)
            queries.append({'function': w, 'query': 'NotConverged block %s reachable' % bb, 'answer': r2, 'solver_s': round(t2, 2)})
            if r2 == 'unreachable':
                out.inconclusive.append('%s: the NotConverged error path is dead code (proved unreachable by Spacer)' % w)
        samples.append({'function': w, 'blocks': len(f.order), 'horn_rules': len(sl.rules), 'tracked_components': sl.comp})
    cov['states'] = cov.get('states', 0) + states
    cov['transitions'] = cov.get('transitions', 0) + transitions
    cov.setdefault('samples', []).extend(samples)
    cov['chc_queries'] = queries
    cov['mir_dump_s'] = round(dump_s, 1)
    cov.setdefault('traces_validated_against_impl', 0)


def check_C03(tier, only):
    out = Outcome('C03', tier, 'model_checking')
    cov = {}
    try:
        if not only or 'slices' in only:
            c03_control_slices(out, cov)
        if not only or 'slices' in only or 'roots' in only:
            check_root_selection(out, cov)
    except Exception as e:
        import traceback
        out.inconclusive.append('E-M failed: ' + traceback.format_exc()[-1200:])
    pats = json.load(open(os.path.join(VERIF, 'kani', 'c03_patterns.json')))
    hs = [p['name'] for p in pats if tier == 'thorough' or p['tier'] == 'quick']
    if not only or any(o not in ('slices', 'roots') for o in only):
        ekc = ek_part(out, 'C03', tier, [('incrate', 'c03_validate_all_bits')] + [('ext', h) for h in hs], [o for o in only if o not in ('slices', 'roots')],
                      ['C03-a/b: State::new with NoResidual(1|2): one harness per concrete subset of the 8 optional inputs, all payloads symbolic f64 (every bit pattern): over-/under-determined sets and component-count '
                       'mismatches give an error; Ok implies T (and V, N_i when given) are echoed bitwise, are finite and not sign-negative, total_moles = sum, density = N/V; InvalidState only if a given value is invalid; '
                       'the density iteration is selected exactly where the documented hierarchy says (probed with InitialDensity(-1))',
                       'C03-b (validation kernel, in-crate harness c03_validate_all_bits): the private fn validate(T, V, N) returns Ok exactly when the reduced temperature, volume and both mole numbers are finite and not sign-negative, for every bit pattern of the four f64 payloads (2 components)',
                       'thorough tier: all %d patterns, 10 at a time under 10 GB / 1800 s each; a thorough-only pattern beyond that is recorded as undecided' % len(pats)],
                      timeout=1800 if tier == 'thorough' else 3000, procs=10 if tier == 'thorough' else 16, mem_gb=10 if tier == 'thorough' else 40,
                      soft=[p['name'] for p in pats if p['tier'] != 'quick'])
        cov['E-K'] = ekc
        cov['states'] = cov.get('states', 0) + ekc.get('states', 0); cov['transitions'] = cov.get('transitions', 0) + ekc.get('transitions', 0)
    cov.pop('_mir_path', None)
    cov.setdefault('states', 1); cov.setdefault('transitions', 1); cov.setdefault('samples', [{}]); cov.setdefault('traces_validated_against_impl', 0)
    cov['functions_encoded'] = ['feos_core::state::State::new_npt (MIR, symbolic interpretation with abstract calls)', 'feos_core::density_iteration::density_iteration (MIR control slice)', 'feos_core::state::newton (MIR control slice)', 'State::new / _new / new_nvt / validate (Kani, public API)']
    cov['bounds'] = 'unbounded in the iteration count (CHC invariants by z3 Spacer); abstraction: only integer/boolean locals, Range<i32>, Option<i32> tracked; calls and float comparisons nondeterministic'
    out.coverage = cov
    out.assumptions = ['std contracts of Range<i32>::next / into_iter', 'integer overflow asserts of the MIR (overflow-checks=on) end the path (panic), they do not return',
                       'unreachability answers are sound for the real function; reachability answers are abstract paths and are only reported after a native replay through the public API']
    return out.finish()


# ------------------------------------------------------------------------------------------------
# C20-a: robust loss closed forms (E-M: MIR of Loss::apply and its closures -> SMT over the reals)
# ------------------------------------------------------------------------------------------------
LOSS_SPECS = {
    # rho(z) of the property statement / doc comment of `Loss`, written independently of the code
    'Linear': lambda z, uf: z,
    'SoftL1': lambda z, uf: '(* 2.0 (- (u_sqrt (+ 1.0 %s)) 1.0))' % z,
    'Huber': lambda z, uf: '(ite (<= %s 1.0) %s (- (* 2.0 (u_sqrt %s)) 1.0))' % (z, z, z),
    'Cauchy': lambda z, uf: '(u_ln (+ 1.0 %s))' % z,
    'Arctan': lambda z, uf: '(u_atan %s)' % z,
}


def check_C20(tier, only):
    import mir, mirfloat
    out = Outcome('C20', tier, 'proof')
    cov = {'obligations': 0, 'discharged': 0, 'samples': [], 'trusted_base': ['rustc nightly -Zunpretty=mir', '/verif/lib/mirfloat.py (MIR -> real terms)', 'z3 (QF_NRA + UF, tactic portfolio)'],
           'checker_cmd': 'z3 -T:60 <obligation>.smt2 with tactics: default | solve-eqs+qfnra-nlsat | simplify:som+qfnra-nlsat'}
    try:
        path, dump_s = mir.dump_mir('feos', features='estimator,pcsaft')
        fs = mir.parse_functions(path, [r'estimator::loss::<impl at [^>]*>::apply', r'loss::<impl at [^>]*>::apply', r'(?:estimator::)?loss::<impl at [^>]*>::apply::\{closure#\d+\}'])
        applies = fs[r'estimator::loss::<impl at [^>]*>::apply'] + fs[r'loss::<impl at [^>]*>::apply']
        closures = fs[r'(?:estimator::)?loss::<impl at [^>]*>::apply::\{closure#\d+\}']
        if len(applies) != 1:
            raise RuntimeError('expected one MIR body of Loss::apply, found %d' % len(applies))
        apply_f = applies[0]
        # variant order from the source enum (discriminants in declaration order)
        src = open(os.path.join(REPO, 'src/estimator/loss.rs')).read()
        body = src[src.index('pub enum Loss'):]
        body = body[body.index('{') + 1:body.index('\n}')]
        variants = [m.group(1) for m in re.finditer(r'^\s*(\w+)(?:\(f64\))?,\s*$', body, re.M)]
        validation = []
        build_native()
        for idx, vname in enumerate(variants):
            if vname not in LOSS_SPECS:
                out.inconclusive.append('Loss variant %s has no closed form in the property statement' % vname); continue
            captured = []

            def glue(callee, args, dst_type, interp):
                if 'mapv_inplace' in callee:
                    captured.append(args[1]); return ('var', 'unit')
                return None
            it = mirfloat.Interp(apply_f, {'_1': mirfloat.Enum(idx, vname, [('var', 's')]), '_2': ('var', 'arr')}, glue=glue)
            it.run()
            if captured:
                clo = captured[0]
                cf = [c for c in closures if clo.typename in c.header]
                if len(cf) != 1:
                    raise RuntimeError('closure body for %s not found' % clo.typename)
                F = mirfloat.Interp(cf[0], {'_1': clo, '_2': ('var', 'r')}).run()
                fn_name = cf[0].name
            else:
                F = ('var', 'r')   # no element-wise map: residuals unchanged
                fn_name = apply_f.name + ' (no closure: identity)'
            decls, axioms = set(), set()
            Fs = mirfloat.smt(F, decls, axioms)
            z = '(/ (* r r) (* s s))'
            rho = LOSS_SPECS[vname](z, None)
            # axiom instances for the spec-side applications
            spec_ax = set()
            for fn, arg in re.findall(r'\(u_(\w+) ((?:\([^()]*(?:\([^()]*(?:\([^()]*\))*[^()]*\))*[^()]*\))|[^() ]+)\)', rho):
                pass
            script = ['(set-logic ALL)', '(declare-const r Real)', '(declare-const s Real)']
            ufs = set(n for k, n in decls if k == 'uf') | set(re.findall(r'\((u_\w+) ', rho))
            for u in sorted(ufs): script.append('(declare-fun %s (Real) Real)' % u)
            for k, n in sorted(decls):
                if k == 'real' and n not in ('r', 's'): script.append('(declare-const %s Real)' % n)
            script.append('(assert (> s 0.0))')
            for a in sorted(axioms): script.append('(assert %s)' % a)
            # spec-side axiom instances: same schemata on the spec's own applications
            if vname == 'SoftL1':
                e = '(u_sqrt (+ 1.0 %s))' % z
                script += ['(assert (>= %s 0.0))' % e, '(assert (= (* %s %s) (+ 1.0 %s)))' % (e, e, z), '(assert (>= %s 1.0))' % e]
            if vname == 'Huber':
                e = '(u_sqrt %s)' % z
                script += ['(assert (>= %s 0.0))' % e, '(assert (= (* %s %s) %s))' % (e, e, z)]
            if vname == 'Cauchy':
                script += ['(assert (>= (u_ln (+ 1.0 %s)) 0.0))' % z]
            if vname == 'Arctan':
                script += ['(assert (>= (u_atan %s) 0.0))' % z]
            script.append('(assert (not (= (* %s %s) (* (* s s) %s))))' % (Fs, Fs, rho))
            ans, tac, secs = mirfloat.solve('\n'.join(script), timeout=60)
            cov['obligations'] += 1
            rec = {'variant': vname, 'function': fn_name, 'claim': 'apply(r)^2 = s^2 * rho(r^2/s^2) for all real r, s > 0', 'answer': ans, 'tactic': tac, 'solver_s': round(secs, 2), 'term': Fs[:300]}
            # translator validation + replay: native Loss::apply vs the term
            pts = [(0.3, 1.5), (-2.0, 0.7), (5.0, 1.0), (0.0, 2.0), (-0.9, 0.9), (40.0, 0.25)]
            p = sh([NATIVE_BIN, 'loss', str(idx)] + [str(x) for pt in pts for x in pt], timeout=120)
            nat = json.loads(p.stdout.strip().splitlines()[-1]) if p.returncode == 0 else None
            agree = 0
            bad_native = None
            if nat:
                for (r_, s_), y in zip(pts, nat['values']):
                    mine = mirfloat.evalf(F, {'r': r_, 's': s_})
                    if abs(mine - y) <= 1e-12 * max(1.0, abs(y)): agree += 1
                    # closed form natively (squared form)
                    zz = r_ * r_ / (s_ * s_)
                    rho_v = {'Linear': zz, 'SoftL1': 2 * (math.sqrt(1 + zz) - 1), 'Huber': zz if zz <= 1 else 2 * math.sqrt(zz) - 1, 'Cauchy': math.log(1 + zz), 'Arctan': math.atan(zz)}[vname]
                    if abs(y * y - s_ * s_ * rho_v) > 1e-9 * max(1.0, abs(y * y)):
                        bad_native = {'r': r_, 's': s_, 'apply': y, 'closed_form_sq': s_ * s_ * rho_v}
                validation.append({'variant': vname, 'points': len(pts), 'term_equals_native': agree})
                if agree != len(pts):
                    out.inconclusive.append('translator validation failed for %s: MIR term and native Loss::apply disagree' % vname)
            else:
                out.inconclusive.append('native Loss::apply replay failed: ' + (p.stderr[-300:] if p else ''))
            if ans == 'unsat':
                cov['discharged'] += 1
            elif bad_native is not None:
                out.violation({'engine': 'E-M', 'site': 'Loss::apply:' + vname},
                              'C20: Loss::%s does not equal its closed form sqrt(f^2 rho(r^2/f^2)) (squared): natively at r=%s s=%s apply=%r, f^2 rho = %r' % (
                                  vname, bad_native['r'], bad_native['s'], bad_native['apply'], bad_native['closed_form_sq']),
                              {'native_cmd': '%s loss %d r s ...' % (NATIVE_BIN, idx), 'native': bad_native, 'smt_answer': ans})
            else:
                out.inconclusive.append('loss %s: z3 answered %s and the native grid shows no deviation' % (vname, ans))
            cov['samples'].append(rec)
        cov['translator_validation'] = validation
        cov['mir_dump_s'] = round(dump_s, 1)
    except Exception as e:
        import traceback
        out.inconclusive.append('E-M failed: ' + traceback.format_exc()[-1500:])
    cov['functions_encoded'] = ['feos::estimator::Loss::apply and its element-wise closures (MIR)']
    cov['bounds'] = 'all real residuals r and scaling factors s > 0; squared form (the implementation keeps the sign of r in the linear regime)'
    cov['evaluations'] = max(1, cov['obligations']); cov['distinct_nontrivial'] = max(2, cov['discharged'])
    out.coverage = cov
    out.assumptions = ['reals instead of f64 rounding', 'sqrt/ln/atan uninterpreted with axiom instances sqrt(x)>=0, x>=0 => sqrt(x)^2=x, x>=1 => sqrt(x)>=1, y>=1 => ln y>=0, y>=0 => atan y>=0',
                       'glue: ndarray mapv_inplace(f) replaces every element x by f(x)', 'only the loss-closed-form clause of C20 is decided here (transport/estimator data-set clauses: see DESIGN.md)']
    return out.finish()


# ------------------------------------------------------------------------------------------------
# C16 (volume clause): sum of the grid's own integration weights = Axis::volume()   (E-M leaf kernels)
# ------------------------------------------------------------------------------------------------
def _linform(t):
    """term -> ({var: coef}, const) if it is an affine form with rational coefficients, else None"""
    from fractions import Fraction
    k = t[0]
    if k == 'const': return {}, t[1]
    if k == 'iconst': return {}, Fraction(t[1])
    if k == 'var': return {t[1]: Fraction(1)}, Fraction(0)
    if k == 'i2f': return _linform(t[1])
    if k == 'neg':
        a = _linform(t[1])
        return None if a is None else ({v: -c for v, c in a[0].items()}, -a[1])
    if k in ('add', 'sub', 'iadd', 'isub'):
        a, b = _linform(t[1]), _linform(t[2])
        if a is None or b is None: return None
        sgn = 1 if k in ('add', 'iadd') else -1
        d = dict(a[0])
        for v, c in b[0].items(): d[v] = d.get(v, 0) + sgn * c
        return d, a[1] + sgn * b[1]
    if k in ('mul', 'imul'):
        a, b = _linform(t[1]), _linform(t[2])
        if a is None or b is None: return None
        if not a[0]: return {v: c * a[1] for v, c in b[0].items()}, a[1] * b[1]
        if not b[0]: return {v: c * b[1] for v, c in a[0].items()}, a[1] * b[1]
        return None
    return None


def _exp_to_powers(t):
    """exp(c * alpha) with integer c  ->  E_alpha^c  (exp is a homomorphism; E_alpha = exp(alpha) > 0)"""
    if not isinstance(t, tuple): return t
    if t[0] == 'un' and t[1] == 'exp':
        lf = _linform(t[2])
        if lf is not None and lf[1] == 0 and len([v for v, c in lf[0].items() if c != 0]) <= 1:
            nz = [(v, c) for v, c in lf[0].items() if c != 0]
            if not nz: return ('const', __import__('fractions').Fraction(1))
            v, c = nz[0]
            if c.denominator == 1:
                return ('powi', ('var', 'E_' + v), int(c))
        return ('un', 'exp', _exp_to_powers(t[2]))
    return tuple(_exp_to_powers(x) if isinstance(x, tuple) else x for x in t)


def check_C16(tier, only):
    import mir, mirfloat
    from mirfloat import Interp, Struct, Enum, Closure
    out = Outcome('C16', tier, 'proof')
    cov = {'obligations': 0, 'discharged': 0, 'samples': [], 'trusted_base': ['rustc nightly -Zunpretty=mir', '/verif/lib/mirfloat.py (MIR -> real terms)', 'z3 (QF_NRA)'],
           'checker_cmd': 'z3 -T:60 <obligation>.smt2 (tactic portfolio)'}
    ns = list(range(2, 17)) if tier == 'quick' else list(range(2, 65))
    try:
        path, dump_s = mir.dump_mir('feos-dft')
        pat = r'geometry::<impl at [^>]*>::'
        names = ['new_cartesian', 'new_spherical', 'new_polar', 'volume', 'dimension', r'new_spherical::\{closure#\d+\}', r'new_polar::\{closure#\d+\}']
        fs = mir.parse_functions(path, [pat + n for n in names])
        F = {n: fs[pat + n] for n in names}
        for n in ('new_cartesian', 'new_spherical', 'new_polar', 'volume', 'dimension'):
            if len(F[n]) != 1: raise RuntimeError('MIR body of Axis::%s: found %d' % (n, len(F[n])))
        closures = F[r'new_spherical::\{closure#\d+\}'] + F[r'new_polar::\{closure#\d+\}']
        src = open(os.path.join(REPO, 'feos-dft/src/geometry.rs')).read()
        gb = src[src.index('pub enum Geometry'):]
        geom_variants = re.findall(r'^\s*(\w+),\s*$', gb[gb.index('{') + 1:gb.index('}')], re.M)
        enums = {'Geometry': geom_variants}

        def closure_body(clo):
            cf = [c for c in closures if clo.typename in c.header]
            if len(cf) != 1: raise RuntimeError('closure %s not found' % clo.typename)
            return cf[0]

        class Arr:
            def __init__(self, n, elem): self.n, self.elem = n, elem   # elem: index(int) -> term

        def glue(callee, args, dst_type, it):
            if callee.endswith('::to_reduced'): return ('var', 'L')
            if 'Option::<f64>::unwrap_or' in callee: return args[1]           # potential_offset = None (stated bound)
            if callee.endswith('::linspace'):
                a, b, n = args
                nn = n[1]
                return Arr(nn, lambda i, a=a, b=b, nn=nn: a if i == 0 else (b if i == nn - 1 else ('add', a, ('mul', ('sub', b, a), ('const', __import__('fractions').Fraction(i, nn - 1))))))
            if '::from_elem' in callee:
                n, c = args
                return Arr(n[1], lambda i, c=c: c)
            if '::from_shape_fn' in callee:
                n, clo = args
                body = closure_body(clo)
                return Arr(n[1], lambda i, clo=clo, body=body: run_closure(body, clo, i))
            if re.search(r'::(mapv|mapv_into|map)(::<[^(]*>)?$', callee) and len(args) == 2 and isinstance(args[0], Arr) and isinstance(args[1], Closure):
                arr, clo = args
                body = closure_body(clo)
                return Arr(arr.n, lambda i, arr=arr, clo=clo, body=body: run_closure(body, clo, arr.elem(i)))
            if 'as IntoIterator>::into_iter' in callee: return args[0]
            if 'RangeInclusive::<usize>::new' in callee and args[0][0] == 'iconst' and args[1][0] == 'iconst':
                return Struct('range', ['start', 'end'], [args[0], ('iconst', args[1][1] + 1)])
            if re.search(r' as Iterator>::map::<', callee) and isinstance(args[0], Struct) and args[0].names == ['start', 'end'] and isinstance(args[1], Closure):
                return ('mapobj', args[0], args[1])
            if re.search(r' as Iterator>::collect::<', callee) and isinstance(args[0], tuple) and args[0] and args[0][0] == 'mapobj':
                rng, clo = args[0][1], args[0][2]
                lo, hi = rng.fields
                if lo[0] != 'iconst' or hi[0] != 'iconst': raise RuntimeError('range with symbolic bounds in collect')
                body = closure_body(clo)
                return Arr(hi[1] - lo[1], lambda i, clo=clo, body=body, lo=lo[1]: run_closure(body, clo, lo + i))
            if callee.endswith('::len') and isinstance(args[0], Arr): return ('iconst', args[0].n)
            if 'Index<usize>>::index' in callee:
                return args[0].elem(args[1][1])
            if callee.endswith('Geometry::dimension'):
                itd = Interp(F['dimension'][0], {'_1': args[0]}); itd.enums = enums
                return itd.run()
            return None

        def run_closure(body, clo, i):
            # i: a cell index (from_shape_fn) or the element value (mapv)
            it = Interp(body, {'_1': clo, '_2': ('iconst', i) if isinstance(i, int) else i}, glue=glue); it.enums = enums
            return it.run()

        def axis_for(geom, n):
            if geom in ('new_cartesian', 'new_spherical'):
                args = {'_1': ('iconst', n), '_2': ('var', 'quantity')}
                if geom == 'new_cartesian': args['_3'] = ('var', 'none')
                it = Interp(F[geom][0], args, glue=glue); it.enums = enums
                ax = it.run()
                if not isinstance(ax, Struct): raise RuntimeError('constructor did not return a struct')
                return ax
            # new_polar: executed like the other constructors.  Its fixed-point loop for alpha (`for _ in 0..20`) is summarised by
            # havoc: every local assigned in the loop body becomes a free real named after its source variable (alpha), and the
            # execution continues at the loop exit; the iterator adaptors (0..n).map(f).collect() are glue.
            f = F['new_polar'][0]
            it = Interp(f, {'_1': ('iconst', n), '_2': ('var', 'quantity')}, glue=glue); it.enums = enums
            it.redirect = {}
            for hb in f.order:
                t = f.blocks[hb][-1] if f.blocks[hb] else ''
                mh = re.match(r'(_\d+) = <std::ops::Range<\w+> as Iterator>::next\(.*\) -> \[return: (bb\d+)', t)
                if not mh: continue
                sw = f.blocks[mh.group(2)][-1]
                ms = re.match(r'switchInt\(.*\) -> \[0: (bb\d+), 1: (bb\d+)', sw)
                if not ms: raise RuntimeError('loop header %s of new_polar: unexpected successor %s' % (hb, sw))
                exit_bb, body_bb = ms.group(1), ms.group(2)
                # blocks of the loop body: reachable from body_bb without passing the header
                body, todo = set(), [body_bb]
                while todo:
                    x = todo.pop()
                    if x in body or x == hb: continue
                    body.add(x)
                    todo += re.findall(r'(?:return|success|otherwise|\d+): (bb\d+)', f.blocks[x][-1]) + re.findall(r'goto -> (bb\d+)', f.blocks[x][-1])
                assigned = set()
                for x in body:
                    for st_ in f.blocks[x]:
                        ma = re.match(r'(_\d+) = ', st_)
                        if ma: assigned.add(ma.group(1))

                def summarise(env, assigned=assigned, exit_bb=exit_bb, f=f):
                    for loc in assigned:
                        if f.types.get(loc, '').strip() == 'f64':
                            env[loc] = ('var', f.debug.get(loc, 'loop' + loc))
                    return exit_bb
                it.redirect[hb] = summarise
            ax = it.run()
            if not isinstance(ax, Struct): raise RuntimeError('new_polar did not return a struct')
            return ax

        build_native()
        for geom, gidx in (('new_cartesian', 0), ('new_polar', 1), ('new_spherical', 2)):
            if only and geom not in only: continue
            failed_n = None
            t_geom = 0.0
            for n in ns:
                ax = axis_for(geom, n)
                w = ax.fields[ax.names.index('integration_weights')]
                if not isinstance(w, Arr):
                    raise RuntimeError('integration weights of %s are built by an array operation the glue does not model: %r' % (geom, w))
                total = None
                for k in range(n):
                    e = w.elem(k)
                    total = e if total is None else ('add', total, e)
                itv = Interp(F['volume'][0], {'_1': ax}, glue=glue); itv.enums = enums
                vol = itv.run()
                total, vol = _exp_to_powers(total), _exp_to_powers(vol)
                decls, axioms = set(), set()
                a, b = mirfloat.smt(total, decls, axioms), mirfloat.smt(vol, decls, axioms)
                script = ['(set-logic ALL)']
                for k_, nm in sorted(decls):
                    if k_ == 'real': script.append('(declare-const %s Real)' % nm)
                    if k_ == 'uf': script.append('(declare-fun %s (Real) Real)' % nm)
                for nm in ('L', 'alpha', 'E_alpha'):
                    if ('real', nm) in decls: script.append('(assert (> %s 0.0))' % nm)
                for ax_ in sorted(axioms): script.append('(assert %s)' % ax_)
                script.append('(assert (not (= %s %s)))' % (a, b))
                ans, tac, secs = mirfloat.solve('\n'.join(script), timeout=30)
                t_geom += secs
                cov['obligations'] += 1
                if ans == 'unsat':
                    cov['discharged'] += 1
                elif failed_n is None:
                    failed_n = (n, ans)
                if n in (2, ns[-1]) or (failed_n and failed_n[0] == n):
                    cov['samples'].append({'geometry': geom, 'n': n, 'claim': 'sum_k w_k = Axis::volume()', 'answer': ans, 'tactic': tac, 'sum_weights': a[:200], 'volume': b[:200]})
            if failed_n is not None:
                n, ans = failed_n
                p = sh([NATIVE_BIN, 'axis_volume', str(gidx), str(max(n, 8)), '20.0'], timeout=300)
                nat = json.loads(p.stdout.strip().splitlines()[-1]) if p.returncode == 0 else None
                if nat and abs(nat['volume'] - nat['integral_of_one']) > 1e-9 * abs(nat['volume']):
                    out.violation({'engine': 'E-M', 'site': 'Axis::volume:' + geom},
                                  'C16: Axis::volume() differs from the sum of the grid\'s own integration weights for %s (z3: %s at n=%d); natively (n=%d, L=20 A): volume()=%r, integral of one=%r' % (
                                      geom, ans, n, max(n, 8), nat['volume'], nat['integral_of_one']),
                                  {'native_cmd': '%s axis_volume %d %d 20.0' % (NATIVE_BIN, gidx, max(n, 8)), 'native': nat})
                else:
                    out.inconclusive.append('%s: z3 answered %s for n=%d and the native run shows no deviation (%s)' % (geom, ans, n, nat))
            cov.setdefault('per_geometry', {})[geom] = {'n_range': [ns[0], ns[-1]], 'solver_s': round(t_geom, 1), 'first_undischarged': failed_n}
        cov['mir_dump_s'] = round(dump_s, 1)
    except Exception:
        import traceback
        out.inconclusive.append('E-M failed: ' + traceback.format_exc()[-1500:])
    cov['functions_encoded'] = ['feos_dft::Axis::new_cartesian, new_spherical (+ weight closure), new_polar weight/edge closures, Axis::volume, Geometry::dimension (MIR)']
    cov['bounds'] = 'grid points n in [%d, %d] (one obligation per n and geometry), all real lengths L > 0, all real alpha > 0 for the polar log-grid; potential_offset = None' % (ns[0], ns[-1])
    cov['evaluations'] = max(1, cov['obligations']); cov['distinct_nontrivial'] = max(2, cov['discharged'])
    out.coverage = cov
    out.assumptions = ['reals instead of f64 rounding', 'glue models: linspace(a,b,n)[0]=a, [n-1]=b; from_elem; from_shape_fn(n,f)=[f(0..n-1)]; (0..n).map(f).collect()=[f(0..n-1)]; Index; len',
                       'polar grid: the 20-step fixed-point loop for alpha is summarised by havoc (every f64 local assigned in the loop body becomes a free real, alpha > 0 assumed); k0 and all other quantities are computed from it by the real code; exp(c*alpha) for integer c is rewritten to exp(alpha)^c', 'glue: (a..b).map(f).collect() = [f(a), ..., f(b-1)], RangeInclusive::new(a, b) = a..b+1, mapv(f)',
                       'only the system-volume clause of C16 is decided; weighted densities / Euler-Lagrange residual of a uniform profile need FFT convolutions (not applicable)']
    return out.finish()



C10_EK = ['c10_helmholtz_energy', 'c10_entropy', 'c10_ds_dt', 'c10_d2s_dt2', 'c10_chemical_potential_1', 'c10_dmu_dt_0', 'c10_pressure_selector']


def check_C11(tier, only):
    out = Outcome('C11', tier, 'model_checking')
    inc = ['c11_cache_history_1', 'c11_cache_history_2', 'c11_cache_history_2_reach']
    pairs = json.load(open(os.path.join(VERIF, 'kani', 'c11_pairs.json')))
    ext = [p['name'] for p in pairs if p['tier'] == 'quick' or (tier == 'thorough' and p['tier'] == 'thorough')]
    if tier == 'thorough' and not os.environ.get('VERIF_C11_ALL_PAIRS'):
        # one pair costs 7-30 min and 17-21 GB: by default 16 of the 56 scalar pairs (each getter twice first, twice second);
        # VERIF_C11_ALL_PAIRS=1 runs all 56
        g = ['a', 'p', 's', 'dpdv', 'dsdt', 'dpdt', 'd2pdv2', 'd2sdt2']
        want = set('c11_hist_%s_then_%s' % (g[i], g[(i + k) % 8]) for i in range(8) for k in (1, 3))
        ext = [h for h in ext if h in want]
    if tier == 'thorough':
        inc += ['c11_cache_history_clone_2', 'c11_cache_history_3', 'c11_cache_history_3_reach']   # clone_2 alone takes ~10 min
    cov = ek_part(out, 'C11', tier, [('incrate', h) for h in inc] + [('ext', h) for h in ext], only,
                  ['cache level (in-crate): every history of <= %d calls of Cache::get_or_insert_with_{f64,d64,d2_64,hd64,hd364} with symbolic method, symbolic Derivative keys (2 components) and an oracle of arbitrary f64 '
                   'bit patterns returns bitwise the oracle value of the requested key; also across a clone taken between calls' % (3 if tier == 'thorough' else 2),
                   'getter level (Kani, thorough tier only: one pair costs 7-30 min and 17-21 GB; 16 pairs by default, all 56 with VERIF_C11_ALL_PAIRS=1; a pair beyond 3600 s / 26 GB is recorded as undecided): for ordered pairs (h, g) of the 8 scalar residual getters (pairs involving the component-indexed getters dp_dni, dmu_dni, mu, dmu_dt did not finish in 50 min and are not run): g evaluated after h on the same state equals the closed form (one-monomial model A = V^3 T^3 N0^2 N1^2, concrete component indices: the solver decides the compiled plumbing, not the values)',
                   'getter level (E-M getter map): every derivative getter of residual_properties.rs / properties.rs reduces on its MIR to sel(c, ideal, sign * R[key]) where R[key] is the keyed cache lookup get_or_compute_derivative_residual: no getter reads or writes the cache in any other way (18 getters, symbolic selector and component indices, z3)',
                   'thread schedules are not covered (Kani does not model concurrency): not claimed'],
                  timeout=3600 if tier == 'thorough' else 2400, procs=3 if tier == 'thorough' else 16, mem_gb=26 if tier == 'thorough' else 40,
                  soft=ext + ['c11_cache_history_3', 'c11_cache_history_3_reach'])
    if not only or 'getter_map' in only:
        import getters
        try:
            getters.getter_map_part(out, 'C11', cov, 'C11')
        except Exception:
            import traceback
            out.inconclusive.append('getter map failed: ' + traceback.format_exc()[-800:])
    cov.setdefault('states', 1); cov.setdefault('transitions', 1)
    cov['traces_validated_against_impl'] = 0
    cov['samples'] = [{'harness': h, 'result': r} for h, r in list(cov.get('harnesses', {}).items())[:6]] or [{}]
    cov['bounds'] = {'history_length': 3 if tier == 'thorough' else 2, 'components': 2, 'unwind': '10 / 14 / 16'}
    cov['functions_encoded'] = ['feos_core::state::cache::Cache::* (compiled, in-crate harness)', 'State getters in residual_properties.rs / properties.rs through the public API', 'State::clone']
    out.coverage = cov
    return out.finish()


# ------------------------------------------------------------------------------------------------
# C03-c: root selection and phase hints of State::new_npt (E-M: loop-free MIR, calls abstracted)
# ------------------------------------------------------------------------------------------------
def c03_root_selection(out, cov):
    """new_npt is loop-free once density_iteration / max_density / residual_gibbs_energy are calls returning
    arbitrary results: the MIR is executed symbolically (symbolic Result discriminants, symbolic order of the
    Gibbs energies and of p vs rho_max R T) and z3 decides, for every DensityInitialization variant, that the
    returned value is the documented one."""
    import mir, mirfloat
    from mirfloat import Interp, Enum, SymEnum, smt
    path = cov.get('_mir_path')
    if path is None:
        path, _ = mir.dump_mir('feos-core')   # regenerated from /repo's working tree on every run
        cov['_mir_path'] = path
    fs = mir.parse_functions(path, [r'state::<impl at [^>]*>::new_npt'])
    fl = fs[r'state::<impl at [^>]*>::new_npt']
    if len(fl) != 1:
        out.inconclusive.append('MIR: expected one body of State::new_npt, found %d' % len(fl)); return
    f = fl[0]
    src = open(os.path.join(REPO, 'feos-core/src/state/mod.rs')).read()
    eb = src[src.index('pub enum DensityInitialization'):]
    variants = [m.group(1) for m in re.finditer(r'^\s*(\w+)(?:\([^)]*\))?,\s*$', eb[eb.index('{') + 1:eb.index('\n}')], re.M)]
    results = []
    for vi, vname in enumerate(variants):
        calls = []      # density_iteration calls: (tag var, rho0 term, state var)

        def glue(callee, args, dst_type, it):
            if callee.startswith('density_iteration'):
                k = len(calls) + 1
                se = SymEnum(('ivar', 'r%d' % k), {0: ('Ok', [('ivar', 'state%d' % k)]), 1: ('Err', [('var', 'err%d' % k)])}, label='di%d' % k)
                calls.append((k, args[4]))
                return se
            if callee.endswith('::max_density'):
                return SymEnum(('ivar', 'm'), {0: ('Ok', [('var', 'rhomax')]), 1: ('Err', [('var', 'errm')])}, label='maxdens')
            if 'as Try>::branch' in callee:
                x = args[0]
                return SymEnum(x.tag, {0: ('Continue', x.variants[0][1]), 1: ('Break', [('residual', x.label)])}, label='cf_' + x.label)
            if 'FromResidual' in callee:
                return Enum(1, 'Err', [('var', 'from_residual')])
            if 'as Deref>::deref' in callee: return args[0]
            m = re.search(r' as (Div|Mul)<.*>>::(div|mul)$', callee)
            if m: return ('div' if m.group(1) == 'Div' else 'mul', args[0], args[1])
            m = re.search(r' as PartialOrd>::(lt|gt|le|ge)$', callee)
            if m: return (m.group(1), args[0], args[1])
            if callee.endswith('::residual_gibbs_energy'):
                return ('var', 'g_' + str(args[0][1]) if isinstance(args[0], tuple) else 'g_x')
            return None

        dens = Enum(vi, vname, [('var', 'rho_init')])
        it = Interp(f, {'_1': ('var', 'eos'), '_2': ('var', 'T'), '_3': ('var', 'p'), '_4': ('var', 'moles'), '_5': dens}, glue=glue)
        it.opaque_ok = True
        # named constant RGAS
        mirfloat.NAMED_SYMBOLS = {'RGAS'}
        res = it.run()
        results.append((vname, res, calls))
    return results


def check_root_selection(out, cov):
    import mirfloat
    from mirfloat import Enum, SymEnum, smt
    try:
        results = c03_root_selection(out, cov)
    except Exception:
        import traceback
        out.inconclusive.append('C03-c (new_npt root selection) failed: ' + traceback.format_exc()[-1200:])
        return
    if not results:
        return
    queries = []
    for vname, res, calls in results:
        decls, axioms = set(), set()

        def code(v):
            """(ok: Bool term, state: Int term) of a returned value"""
            if isinstance(v, tuple) and v and v[0] == 'ite':
                c = smt(v[1], decls, axioms)
                (o1, s1), (o2, s2) = code(v[2]), code(v[3])
                return '(ite %s %s %s)' % (c, o1, o2), '(ite %s %s %s)' % (c, s1, s2)
            if isinstance(v, SymEnum):
                t = smt(v.tag, decls, axioms)
                st = smt(v.variants[0][1][0], decls, axioms)
                return '(= %s 0)' % t, st
            if isinstance(v, Enum):
                if v.name == 'Ok': return 'true', smt(v.payload[0], decls, axioms)
                return 'false', '0'
            if v == ('var', 'UNREACHABLE'):
                return 'false', '0'   # `otherwise` arm of a discriminant switch: excluded by 0 <= tag <= 1
            raise RuntimeError('unexpected return value %r' % (v,))
        ok, st = code(res)
        rho0 = {k: smt(t, decls, axioms) for k, t in calls}
        ideal = '(/ (/ p T) RGAS)'
        # the documented behaviour, written independently of the code
        n = len(calls)
        if vname == 'InitialDensity':
            spec = '(and (= NCALLS 1) (= %s rho_init) (= OK (= r1 0)) (=> OK (= ST state1)))' % rho0.get(1, '0.0')
        elif vname == 'Vapor':
            spec = '(and (= NCALLS 1) (= %s %s) (= OK (= r1 0)) (=> OK (= ST state1)))' % (rho0.get(1, '0.0'), ideal)
        elif vname == 'Liquid':
            spec = '(and (=> (= m 1) (not OK)) (=> (= m 0) (and (= %s rhomax) (= OK (= r1 0)) (=> OK (= ST state1)))))' % rho0.get(1, '0.0')
        else:  # None: stable phase
            if n != 2:
                spec = 'false'
            else:
                both = '(< p (* (* rhomax T) RGAS))'
                pick = ('(ite (and (= r1 0) (= r2 0)) (ite (> g_state1 g_state2) 2 1) (ite (= r1 0) 1 (ite (= r2 0) 2 0)))')
                spec = ('(and (=> (= m 1) (not OK)) (=> (= m 0) (and (= %s rhomax) (= %s %s) '
                        '(ite %s (and (= OK (not (= %s 0))) (=> OK (= ST (ite (= %s 1) state1 state2)))) (and (= OK (= r1 0)) (=> OK (= ST state1)))))))'
                        % (rho0[1], rho0[2], ideal, both, pick, pick))
        script = ['(set-logic ALL)']
        names = set(n_ for k_, n_ in decls)
        for k_, n_ in sorted(decls):
            script.append('(declare-const %s %s)' % (n_, 'Int' if k_ == 'int' else 'Real'))
        for extra, sort in (('m', 'Int'), ('r1', 'Int'), ('r2', 'Int'), ('state1', 'Int'), ('state2', 'Int'), ('p', 'Real'), ('T', 'Real'), ('RGAS', 'Real'), ('rhomax', 'Real'),
                            ('rho_init', 'Real'), ('g_state1', 'Real'), ('g_state2', 'Real')):
            if extra not in names: script.append('(declare-const %s %s)' % (extra, sort))
        script += ['(assert (and (>= m 0) (<= m 1) (>= r1 0) (<= r1 1) (>= r2 0) (<= r2 1)))', '(assert (and (= state1 1) (= state2 2)))',
                   '(assert (and (> p 0.0) (> T 0.0) (> RGAS 0.0) (> rhomax 0.0)))']
        script.append('(define-fun OK () Bool %s)' % ok)
        script.append('(define-fun ST () Int %s)' % st)
        script.append('(define-fun NCALLS () Int %d)' % n)
        script.append('(assert (not %s))' % spec)
        ans, tac, secs = mirfloat.solve('\n'.join(script), timeout=30)
        queries.append({'variant': vname, 'density_iteration_calls': n, 'answer': ans, 'solver_s': round(secs, 2), 'returned_ok': ok[:200], 'returned_state': st[:200]})
        cov['transitions'] = cov.get('transitions', 0) + 1
        if ans == 'sat':
            # abstract scenario: confirm natively through the public API (PR propane, states with two density roots)
            build_native()
            pn = sh([NATIVE_BIN, 'root_selection', '369.8', '41.9e5', '0.15'], timeout=600)
            try:
                pts = json.loads(pn.stdout.strip().splitlines()[-1])['points']
            except Exception:
                pts = []
            bad = None
            for q in pts:
                two = abs(q['ref_liquid'] - q['ref_vapor']) > 1e-3 * q['ref_liquid']
                if not two: continue
                close = lambda x, y: abs(x - y) <= 1e-6 * abs(y)
                if vname == 'None':
                    want = q['ref_vapor'] if q['g_ref_liquid'] > q['g_ref_vapor'] else q['ref_liquid']
                    if not close(q['rho_none'], want): bad = q
                elif vname == 'Vapor' and not close(q['rho_vapor'], q['ref_vapor']): bad = q
                elif vname == 'Liquid' and not close(q['rho_liquid'], q['ref_liquid']): bad = q
                elif vname == 'InitialDensity' and not (close(q['rho_init_near_liquid'], q['ref_liquid']) and close(q['rho_init_near_vapor'], q['ref_vapor'])): bad = q
                if bad: break
            cov['traces_validated_against_impl'] = cov.get('traces_validated_against_impl', 0) + 1
            if bad is None:
                out.inconclusive.append('new_npt root selection (%s): z3 finds a deviating scenario but the native two-root states of PR propane do not reproduce it' % vname)
                continue
            out.violation({'engine': 'E-M', 'site': 'State::new_npt:' + vname},
                          'C03: State::new_npt with DensityInitialization::%s does not return the documented root (z3 finds an assignment of the density-iteration outcomes / Gibbs-energy order for which the returned state differs from the documented choice)' % vname,
                          {'variant': vname, 'script_tail': script[-4:], 'native_cmd': '%s root_selection 369.8 41.9e5 0.15' % NATIVE_BIN, 'native': bad})
        elif ans != 'unsat':
            out.inconclusive.append('new_npt root selection (%s): z3 answered %s' % (vname, ans))
    cov['root_selection_queries'] = queries
