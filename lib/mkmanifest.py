#!/usr/bin/env python3
"""writes /verif/MANIFEST.json from the table below (kept in code so that it stays consistent)"""
import json, os
V = os.path.dirname(os.path.dirname(os.path.abspath(__file__)))
NA = {
 'C04': 'returned VLE states are fixed points of an iterative f64 solver (<=200 iterations through density iterations of transcendental code): no bounded symbolic query over the real code; kernels (phase ordering, trivial-solution predicate) are claimed under C05',
 'C05': 'isofugacity, balances, bubble >= dew and the success clause are statements about converged iterative solvers (flash, bubble/dew Newton loops): no bounded symbolic query over the real code. The one loop-free kernel, PhaseEquilibrium::is_trivial_solution on symbolic states, was built as a Kani harness but exceeds 24 GB in CBMC (symbolic f64 divisions in State construction); nothing is claimed',
 'C06': 'criticality objectives are private, instantiated at concrete dual types inside Newton loops with nalgebra eigen-solves; tolerance statement about a solver result',
 'C07': 'statement about the minimiser of minimize_tpd (<=100 iterations, LU solves, exp/ln on arrays) and the phase diagram of the EOS',
 'C12': 'quantifies over the basin of attraction of iterative solvers; no loop-free kernel',
 'C14': 'serde_json / HashMap<String,..> / file I/O: Kani cannot execute open/read, string-keyed hashbrown is the documented explosion case; with concrete strings only enumeration of concrete runs would remain (binary-matrix slicing in subset is covered relationally under C09)',
 'C15': 'finite set of ~2300 concrete records with no symbolic input: deciding step would be enumeration of concrete runs, excluded for this technique family',
 'C17': 'adjointness of FFT-based convolutions on whole grids; derivative routines instantiated at concrete Dual64/HyperDual64; oracle is a finite difference of an integral',
 'C18': 'Picard/Anderson/Newton-GMRES fixed points on grids to 1e-11',
 'C19': 'needs re-solved profiles at neighbouring conditions and GMRES-based implicit derivatives',
}
CHECKS = {}
def chk(pid, cat, text, note, tech, ref, engine):
    CHECKS[pid] = {
        'property_id': pid, 'quick_cmd': './check %s --tier quick' % pid, 'thorough_cmd': './check %s --tier thorough' % pid,
        'evidence_file': '/verif/evidence/%s.json' % pid, 'replay_cmd_template': './check %s --replay {path}' % pid, 'engine': engine,
        'level_claimed': {'category': cat, 'text': text, 'design_ref': ref}, 'level_note': note, 'technique': tech}

ES_NOTE = ('Trusted: rustc monomorphisation, num-dual generics, the Sym tracer, z3, exact-rational constant folding. Assumed: reals instead of f64 rounding; transcendental functions '
           'uninterpreted + ground axioms; branches on .re() as at the witness; denominators of the reference execution non-zero. Per parameter set (shipped records / synthetic records), not for all parameters. ')
EK_NOTE = ('E-K: Kani 0.68/CBMC 6.11 on the compiled code; derivative-cache container replaced by a fixed-capacity association array under cfg(kani) (std HashMap contract trusted); RandomState::new stubbed; '
           'single thread; only harness assertions, unwinding assertions and cover! decide. ')
ES_TECH = 'symbolic execution by generic instantiation (Sym: DualNum) + SMT (z3 QF_NRA/UF) relational cut-point sweeping; native f64 replay of disagreements'

chk('C01', 'proof',
    'Partial: (a0) E-M getter map: each of 18 derivative getters of State reduces on its MIR to sel(c, ideal, sign*R[key]) with the key, sign and dual part its definition requires, and each of 37 composite getters (heat capacities, enthalpy, internal/Gibbs energy, molar/specific forms, residual forms, Joule-Thomson, compressibilities, ...) equals its defining formula over the getters it uses (z3, symbolic selector and component indices); (a) E-K (thorough tier only, 11 getters): for a polynomial verification EOS (degree <= 3, symbolic small-integer coefficients) every residual getter of State (pressure, entropy, chemical potential, dp/dV, dp/dT, dp/dN, dmu/dN, dmu/dT, dS/dT, d2S/dT2, d2p/dV2) returns exactly the closed-form partial derivative (sign, dual seeding, cache key); '
    '(b) E-S: tracing each shipped model at two witnesses gives the same term DAG, i.e. no state-dependent data is concretised through .re() (the mechanism that makes dual parts wrong); (c) E-S: derivative parts computed through Dual/HyperDual/Dual3<Sym> have the homogeneity degrees implied by C02. '
    'The finite-difference formulation over a state grid is not a solver query and is not claimed.',
    ES_NOTE + EK_NOTE + 'Models whose trace concretises (cross-association Newton iterate, SAFT-VRQ Mie effective diameters, ePC-SAFT T-dependent diameters) are listed outside_reach in scope/es_scope.json unless a native finite-difference replay shows a wrong derivative.',
    ES_TECH + '; Kani/CBMC bounded model checking of State getters against closed forms; MIR -> SMT getter map (z3)', 'DESIGN.md 4/C01, 10.2', 'E-S + E-K + E-M')
chk('C02', 'proof',
    'For every shipped residual model (PR, PC-SAFT incl. association/polar/k_ij, ePC-SAFT, gc-PC-SAFT, PeTS, uv-theory WCA/BH/B3, SAFT-VR Mie, SAFT-VRQ Mie) and every functional bulk path, z3 proves A_k(T, lam V, lam N) = lam A_k(T,V,N) for each contribution k, for all real T,V,N_i,lam > 0 on the traced control path, from the expression DAG obtained by running the real generic code on a symbolic number type. Bounded: 2 components, seeded parameter sets, real-arithmetic semantics.',
    ES_NOTE, ES_TECH, 'DESIGN.md 2, 4/C02', 'E-S')
chk('C03', 'model_checking',
    'Partial: (a) E-K: State::new over option subsets (one harness per concrete subset of the 8 optional inputs and component count, 25 quick / 407 thorough; temperature symbolic (any f64) on rejected patterns plus concrete twins, concrete power-of-two payloads on valid routes): over-/under-determined sets and component-count mismatches are errors, Ok echoes T/V/N bitwise, density iteration selected exactly where documented; the private validate(T, V, N) returns Ok exactly for finite, not sign-negative reduced inputs over ALL bit patterns of four f64 payloads (in-crate harness); '
    '(b) E-M: on the MIR control slices of density_iteration and newton, z3 Spacer proves (unbounded in the iteration count; discriminants of Result locals tracked, query posed at the return terminator) that Ok is never returned after the iteration budget is exhausted without a passed tolerance test, and that NotConverged is reachable; a reachable answer is confirmed natively (density scan / (p,h),(p,s) targets that do not settle) before it is reported; (c) E-M: the loop-free MIR of State::new_npt is executed symbolically with the density iterations as calls returning symbolic results, and z3 proves for every DensityInitialization variant that the documented root is returned (hint: the iteration started from the documented density; no hint: the root of lower residual Gibbs energy, the surviving one, or an error). Convergence/success clauses for real models are not decided.',
    EK_NOTE + 'E-M: abstraction to integer/boolean locals, Range<i32>/Option<i32> by std contract, every call and float comparison nondeterministic; unreachability is sound for the real function, reachability is reported only after a native replay.',
    'Kani/CBMC bounded model checking (public API, symbolic f64 payloads); MIR control slice -> constrained Horn clauses -> z3 Spacer; native replay', 'DESIGN.md 3, 4/C03', 'E-K + E-M')
chk('C08', 'proof',
    'Pairs decided by z3 for all real states on the traced path: generic containers (ResidualModel enum via the derive macros, EquationOfState wrapper) vs bare model for 12 model kinds; ePC-SAFT without ions vs PC-SAFT (with and without association); homosegmented GC parameter set vs combined record; Peng-Robinson residual pressure as the library differentiates it vs the textbook closed form. '
    'Functional-bulk vs EOS pairs (PC-SAFT x 3 FMT versions, FMT vs BMCSL, PeTS, gc-PC-SAFT, SAFT-VRQ Mie) and SAFT-VRQ Mie(FH0) vs SAFT-VR Mie are beyond the prover (scope/es_scope.json: outside_reach): for those only a natively reproduced deviation is reported, no claim is made. Closed-form vs iterative association: outside (iterative side).',
    ES_NOTE + 'Constants within 8 ulp (64 for the textbook pair) are identified before encoding; f64::EPSILON regularisers mapped to 0 in functional pairs.', ES_TECH, 'DESIGN.md 4/C08', 'E-S')
chk('C09', 'proof',
    'For ternary systems of PC-SAFT (with association and k_ij), PR, PeTS, gc-PC-SAFT (thorough: polar PC-SAFT, uv-theory, SAFT-VR Mie, ePC-SAFT, PC-SAFT functional) z3 proves for all real states on the traced path: permuted records at permuted amounts give the same contributions and permuted chemical potentials; a zero-amount component changes nothing (vs Components::subset); subset() equals the model built directly from records[idx]; a component entered twice equals once with summed amounts.',
    ES_NOTE + 'Literal constants within 8 ulp are identified before encoding (roundoff of re-ordered f64 preprocessing; counted). Cross-association (iterative) paths are outside reach. Options that only influence f64 helpers (max_eta) are not observed.', ES_TECH, 'DESIGN.md 4/C09', 'E-S')
chk('C10', 'proof',
    'Partial: (a0) E-M getter map: every composite getter with a contribution selector passes its own selector to every getter it uses (37 defining formulas proved by z3); for every derivative getter with a contribution selector, Total = IdealGas + Residual, IdealGas = the documented ideal part (rho R T, -rho R T / V, rho R, R T / V, 2 rho R T / V^2, R T / N_i delta_ij, or the matching dual part of the ideal-gas Helmholtz energy), Residual = sign*R[key] (z3 on the MIR, symbolic selector); (a) E-K (thorough): Total = IdealGas + Residual exactly and each part equals its closed form for one getter per derivative-order arm of the contribution selector; p_ig = rho R T bitwise for all f64 inputs accepted by new_nvt; (b) E-S: ideal mixing A_ig(T,V,N) = sum_i A_ig^pure,i(T,V,N_i) and extensivity of A_ig for Joback and DIPPR(100; thorough 107/127) models. The heat-capacity-correlation clause and zero-density limits: see C13 / DESIGN.md.',
    ES_NOTE + EK_NOTE + 'In the E-K part the ideal-gas Helmholtz energy of the verification model is a polynomial (the provided ln-based method is over-approximated by CBMC).', ES_TECH + '; MIR -> SMT getter map (z3); Kani/CBMC (thorough)', 'DESIGN.md 4/C10, 10.2', 'E-S + E-M + E-K')
chk('C11', 'model_checking',
    'Histories only: (getter map, E-M) no State getter accesses the derivative cache except through the keyed lookup get_or_compute_derivative_residual(key) with the key its definition requires (18 getters, z3 on the MIR); (cache level, in-crate) every history of <= 2 (thorough 3) calls of the five Cache::get_or_insert_with_* methods with symbolic method, symbolic derivative keys and arbitrary f64 values returns bitwise the value of the requested key, also across a clone; (getter level, thorough tier only) g evaluated after h on the same state equals the closed form for 16 (VERIF_C11_ALL_PAIRS=1: 56) ordered pairs of the 8 scalar residual getters. Thread schedules and par_pure are NOT covered (Kani does not model concurrency).',
    EK_NOTE + 'Bound: 2 components, history length 2/3.', 'Kani/CBMC bounded model checking with symbolic call histories; MIR -> SMT getter map (z3)', 'DESIGN.md 4/C11, 10.2', 'E-K + E-M')
chk('C13', 'proof',
    'Partial: for every non-electrolyte model, the dual part read by second_virial_coefficient at zero density equals, per contribution, the same dual part of the finite-density code path at rho = 0 (z3, all T > 0 on the path); constants folded at zero density must be finite. Contributions with removable x/rho terms or concretised traces are outside_reach. Third virial coefficient and seeded parameter sets: thorough tier (everything the thorough tier adds to the quick catalogue is exploration: an undischarged relation there is recorded, not claimed). Temperature derivatives: not claimed. A non-finite or deviating zero-density value found natively (Richardson limit of the finite-density path) is reported even where the prover cannot state the relation.',
    ES_NOTE + 'StateHD::new_virial is mirrored (pub(crate)).', ES_TECH, 'DESIGN.md 4/C13', 'E-S')
chk('C16', 'proof',
    'Volume clause only: for Cartesian, spherical and polar axes and every n in [2,16] (thorough [2,64]) z3 proves sum_k w_k = Axis::volume() for all real L > 0 (and all alpha > 0 for the polar log grid: its 20-step fixed-point loop is summarised by havoc), from the MIR of the three Axis constructors, their weight closures and Axis::volume. Weighted densities / Euler-Lagrange residual / grand potential of a uniform profile need FFT convolutions: not applicable.',
    'Trusted: rustc nightly MIR dump, the MIR->term translator (validated natively), z3. Assumed: reals; glue models of linspace/from_elem/from_shape_fn/map-collect; alpha loop summarised by havoc of the locals it assigns (alpha free, > 0); potential_offset = None.',
    'MIR (rustc nightly) -> real-arithmetic SMT terms of loop-free f64 kernels, z3 QF_NRA; native replay', 'DESIGN.md 3, 4/C16', 'E-M')
chk('C20', 'proof',
    'Loss clause only: for each Loss variant z3 proves apply(r)^2 = s^2 rho(r^2/s^2) for all real r and s > 0 from the MIR of Loss::apply and its closures (squared form: the implementation keeps the sign of r in the linear regime). Transport properties and data-set clauses run solvers / are not loop-free: not decided.',
    'Trusted: rustc nightly MIR dump, the MIR->term translator (validated against native Loss::apply on every run), z3. Assumed: reals; sqrt/ln/atan uninterpreted + axiom instances; mapv_inplace glue.',
    'MIR (rustc nightly) -> real-arithmetic SMT terms, z3 QF_NRA + UF with a tactic portfolio', 'DESIGN.md 3, 4/C20', 'E-M')

def main():
    claimed = sorted(CHECKS)
    m = {
        'version': 1,
        'setup_cmd': 'cd /verif && ./setup.sh',
        'hooks': {'guard': 'kani', 'enable': 'cfg(kani) is set only by the Kani compiler (cargo kani); no flag needed for ordinary builds',
                  'baseline_off_cmd': 'cd /repo && cargo test --workspace --no-fail-fast --offline', 'source_commits': ['1aab836c', '939976aa'], 'add_only': True},
        'engines': [
            {'name': 'E-S', 'path': '/verif/symtrace + /verif/lib/sweep.py', 'serves_properties': ['C01', 'C02', 'C08', 'C09', 'C10', 'C13'],
             'kind_free_text': 'symbolic trace of the real generic model code (Sym: DualNum<f64>) -> term DAG over the reals -> z3 cut-point sweeping'},
            {'name': 'E-K', 'path': '/verif/kani', 'serves_properties': ['C01', 'C03', 'C10', 'C11'],
             'kind_free_text': 'Kani/CBMC bounded model checking of the compiled State layer'},
            {'name': 'E-M', 'path': '/verif/lib/mir.py + /verif/lib/mirfloat.py + /verif/lib/getters.py', 'serves_properties': ['C01', 'C03', 'C10', 'C11', 'C16', 'C20'],
             'kind_free_text': 'nightly MIR dump -> SMT-LIB (real terms for loop-free f64 kernels and State getters with abstract calls; CHC control slices for z3 Spacer)'},
        ],
        'checks': [CHECKS[k] for k in claimed],
        'not_applicable': [{'property_id': k, 'reason': v} for k, v in sorted(NA.items())],
        'notes': 'Technique family: solver-based checking of the real code. exit 2 of a check = inconclusive (solver could not decide an in-scope obligation / vacuity witness broken).',
    }
    pending = [p for p in ['C%02d' % i for i in range(1, 21)] if p not in CHECKS and p not in NA]
    for p in pending:
        m['not_applicable'].append({'property_id': p, 'reason': 'check under construction in this commit (designed in DESIGN.md section 4); not claimed until its check is registered'})
    m['not_applicable'].sort(key=lambda e: e['property_id'])
    json.dump(m, open(os.path.join(V, 'MANIFEST.json'), 'w'), indent=1)

if __name__ == '__main__':
    main()
