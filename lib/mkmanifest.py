#!/usr/bin/env python3
"""writes /verif/MANIFEST.json from the table below (kept in code so that it stays consistent)"""
import json, os
V = os.path.dirname(os.path.dirname(os.path.abspath(__file__)))
NA = {
 'C04': 'returned VLE states are fixed points of an iterative f64 solver (<=200 iterations through density iterations of transcendental code): no bounded symbolic query over the real code; kernels (phase ordering, trivial-solution predicate) are claimed under C05',
 'C06': 'criticality objectives are private, instantiated at concrete dual types inside Newton loops with nalgebra eigen-solves; tolerance statement about a solver result',
 'C07': 'statement about the minimiser of minimize_tpd (<=100 iterations, LU solves, exp/ln on arrays) and the phase diagram of the EOS',
 'C12': 'quantifies over the basin of attraction of iterative solvers; no loop-free kernel',
 'C14': 'serde_json / HashMap<String,..> / file I/O: Kani cannot execute open/read, string-keyed hashbrown is the documented explosion case; with concrete strings only enumeration of concrete runs would remain (binary-matrix slicing in subset is covered relationally under C09)',
 'C15': 'finite set of ~2300 concrete records with no symbolic input: deciding step would be enumeration of concrete runs, excluded for this technique family',
 'C17': 'adjointness of FFT-based convolutions on whole grids; derivative routines instantiated at concrete Dual64/HyperDual64; oracle is a finite difference of an integral',
 'C18': 'Picard/Anderson/Newton-GMRES fixed points on grids to 1e-11',
 'C19': 'needs re-solved profiles at neighbouring conditions and GMRES-based implicit derivatives',
}
CHECKS = {}
def chk(pid, cat, text, note, tech, ref, engine):
    CHECKS[pid] = {
        'property_id': pid, 'quick_cmd': './check %s --tier quick' % pid, 'thorough_cmd': './check %s --tier thorough' % pid,
        'evidence_file': '/verif/evidence/%s.json' % pid, 'replay_cmd_template': './check %s --replay {path}' % pid, 'engine': engine,
        'level_claimed': {'category': cat, 'text': text, 'design_ref': ref}, 'level_note': note, 'technique': tech}

chk('C02', 'proof',
    'For every shipped residual model (PR, PC-SAFT incl. association/polar/k_ij, ePC-SAFT, gc-PC-SAFT, PeTS, uv-theory WCA/BH/B3, SAFT-VR Mie, SAFT-VRQ Mie) and every functional bulk path, z3 proves A_k(T, lam V, lam N) = lam A_k(T,V,N) for each contribution k, for all real T,V,N_i,lam > 0 on the traced control path, from the expression DAG obtained by running the real generic code on a symbolic number type. Bounded: 2 components quick (1-3 thorough), seeded shipped parameter sets, real-arithmetic semantics.',
    'Trusted: rustc monomorphisation, num-dual generics, the Sym tracer, z3, exact-rational constant folding. Assumed: reals instead of f64 rounding; transcendental functions uninterpreted + ground axioms; branches on .re() as at the witness; denominators of the reference execution non-zero. Per parameter set, not for all parameters.',
    'symbolic execution by generic instantiation (Sym: DualNum) + SMT (z3 QF_NRA/UF) relational cut-point sweeping; native f64 replay of disagreements', 'DESIGN.md 2, 4/C02', 'E-S')

def main():
    claimed = sorted(CHECKS)
    m = {
        'version': 1,
        'setup_cmd': 'cd /verif && ./setup.sh',
        'hooks': {'guard': 'kani', 'enable': 'cfg(kani) is set only by the Kani compiler (cargo kani); no flag needed for ordinary builds',
                  'baseline_off_cmd': 'cd /repo && cargo test --workspace --no-fail-fast --offline', 'source_commits': [], 'add_only': True},
        'engines': [
            {'name': 'E-S', 'path': '/verif/symtrace + /verif/lib/sweep.py', 'serves_properties': ['C01', 'C02', 'C08', 'C09', 'C10', 'C13'],
             'kind_free_text': 'symbolic trace of the real generic model code (Sym: DualNum<f64>) -> term DAG over the reals -> z3 cut-point sweeping'},
            {'name': 'E-K', 'path': '/verif/kani', 'serves_properties': ['C01', 'C03', 'C05', 'C10', 'C11', 'C20'],
             'kind_free_text': 'Kani/CBMC bounded model checking of the compiled State layer'},
            {'name': 'E-M', 'path': '/verif/lib/mir2smt.py', 'serves_properties': ['C03', 'C16', 'C20'],
             'kind_free_text': 'nightly MIR dump -> SMT-LIB (real terms for f64 leaf kernels; CHC control slices for z3 Spacer)'},
        ],
        'checks': [CHECKS[k] for k in claimed],
        'not_applicable': [{'property_id': k, 'reason': v} for k, v in sorted(NA.items())],
        'notes': 'Technique family: solver-based checking of the real code. exit 2 of a check = inconclusive (solver could not decide an in-scope obligation / vacuity witness broken).',
    }
    pending = [p for p in ['C%02d' % i for i in range(1, 21)] if p not in CHECKS and p not in NA]
    for p in pending:
        m['not_applicable'].append({'property_id': p, 'reason': 'check under construction in this commit (designed in DESIGN.md section 4); not claimed until its check is registered'})
    m['not_applicable'].sort(key=lambda e: e['property_id'])
    json.dump(m, open(os.path.join(V, 'MANIFEST.json'), 'w'), indent=1)

if __name__ == '__main__':
    main()
