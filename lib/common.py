"""Shared plumbing for /verif/check: paths, evidence, known findings, subprocess helpers."""
import json, os, re, subprocess, sys, time, hashlib

VERIF = os.path.dirname(os.path.dirname(os.path.abspath(__file__)))
REPO = '/repo'
WORK = os.environ.get('VERIF_WORK') or os.path.join(VERIF, '.work')   # VERIF_WORK: separate scratch (development only)
EVID = os.path.join(VERIF, 'evidence')
REPLAYS = os.path.join(VERIF, 'replays')
ENV = dict(os.environ, CARGO_NET_OFFLINE='true')


def seed():
    try:
        return int(os.environ.get('VERIF_SEED', '1'))
    except ValueError:
        return 1


def sh(cmd, cwd=None, timeout=None, env=None, check=False):
    p = subprocess.run(cmd, cwd=cwd, shell=isinstance(cmd, str), stdout=subprocess.PIPE, stderr=subprocess.PIPE,
                       text=True, timeout=timeout, env=env or ENV)
    if check and p.returncode != 0:
        raise RuntimeError('command failed (%d): %s\n%s\n%s' % (p.returncode, cmd, p.stdout[-3000:], p.stderr[-3000:]))
    return p


def load_findings():
    p = os.path.join(VERIF, 'known_findings.json')
    if not os.path.exists(p):
        return {'findings': [], 'fixed': []}
    return json.load(open(p))


def finding_for(prop, key):
    """key: dict; a finding matches when all of its key fields equal the given ones"""
    for f in load_findings().get('findings', []):
        if f['property'] != prop:
            continue
        def hit(k, v):
            # '<field>_re': regular expression on the field (a finding names the model family / contribution that fails, which
            # appears under several job names: other tiers, seeded parameter sets, derivative orders)
            if k.endswith('_re'):
                return re.fullmatch(v, str(key.get(k[:-3], ''))) is not None
            return key.get(k) == v
        if all(hit(k, v) for k, v in f['key'].items()):
            return f
    return None


class Outcome:
    """collects per-check results and turns them into exit code + evidence"""

    def __init__(self, prop, tier, level):
        self.prop, self.tier, self.level = prop, tier, level
        self.t0 = time.time()
        self.violations = []     # (key dict, text, replay path)
        self.known = []
        self.inconclusive = []   # text
        self.coverage = {}
        self.assumptions = []

    def violation(self, key, what, replay_obj):
        f = finding_for(self.prop, key)
        if f is not None:
            self.known.append((key, f['what']))
            return
        os.makedirs(REPLAYS, exist_ok=True)
        h = hashlib.sha1(json.dumps(key, sort_keys=True).encode()).hexdigest()[:10]
        path = os.path.join(REPLAYS, '%s-%s.json' % (self.prop, h))
        json.dump({'property': self.prop, 'key': key, 'what': what, 'replay': replay_obj}, open(path, 'w'), indent=1)
        self.violations.append((key, what, path))

    def finish(self):
        ev = {
            'property_id': self.prop, 'tier': self.tier, 'seed': seed(), 'level': self.level,
            'coverage': self.coverage, 'assumptions': self.assumptions,
            'wall_s': round(time.time() - self.t0, 2), 'violations': len(self.violations),
        }
        ev['coverage']['known_findings_hit'] = [w for _, w in self.known]
        ev['coverage']['inconclusive'] = self.inconclusive[:50]
        os.makedirs(EVID, exist_ok=True)
        json.dump(ev, open(os.path.join(EVID, '%s.json' % self.prop), 'w'), indent=1)
        seen = set()
        for key, what in self.known:
            if what not in seen:
                print('KNOWN-FINDING: property=%s %s' % (self.prop, what))
                seen.add(what)
        for key, what, path in self.violations:
            print('VIOLATION property=%s replay=%s' % (self.prop, path))
            print('  ' + what)
        if self.violations:
            return 1
        if self.inconclusive:
            for t in self.inconclusive[:20]:
                print('INCONCLUSIVE: ' + t)
            return 2
        print('OK property=%s tier=%s wall=%.1fs' % (self.prop, self.tier, time.time() - self.t0))
        return 0
