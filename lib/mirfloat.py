"""E-M leaf kernels: symbolic execution of loop-free MIR bodies over the reals.

Values: float/int/bool terms (tuples), references (transparent), closure objects, enum values with a concrete
variant, opaque call results.  Transcendental functions stay uninterpreted ('un', name, arg)."""
import re, math
from fractions import Fraction


class Unsupported(Exception):
    pass


def fconst(txt):
    """'1f64', '2.0E-10f64', '-1f64' -> Fraction (exact value of the f64)"""
    return ('const', Fraction(float(txt)))


class Closure:
    def __init__(self, typename, fields):
        self.typename, self.fields = typename, fields


class Enum:
    def __init__(self, variant_index, variant_name, payload):
        self.idx, self.name, self.payload = variant_index, variant_name, payload


class SymEnum:
    """enum value with a symbolic discriminant: tag is an int term, variants = {index: (name, [payload values])}"""
    def __init__(self, tag, variants, label=''):
        self.tag, self.variants, self.label = tag, variants, label


class VariantView:
    def __init__(self, base, name):
        self.base, self.name = base, name


class Struct:
    def __init__(self, name, names, fields):
        self.name, self.names, self.fields = name, names, fields


NAMED = {  # decimal literals of the Rust standard library (core::f64::consts)
    'PI': '3.14159265358979323846264338327950288', 'TAU': '6.28318530717958647692528676655900577',
    'FRAC_PI_2': '1.57079632679489661923132169163975144', 'FRAC_PI_3': '1.04719755119659774615421446109316763',
    'FRAC_PI_4': '0.785398163397448309615660845819875721', 'FRAC_PI_6': '0.52359877559829887307710723054658381',
    'FRAC_PI_8': '0.39269908169872415480783042290993786', 'SQRT_2': '1.41421356237309504880168872420969808',
    'E': '2.71828182845904523536028747135266250', 'EPSILON': '2.2204460492503131E-16',
}


class Interp:
    def __init__(self, func, args, glue=None, fresh_prefix='c'):
        """args: {'_1': value, ...}; glue: callable(callee, argvalues, dest_type) -> value or None"""
        self.f = func
        self.args = args
        self.glue = glue
        self.calls = []
        self.fresh = 0
        self.prefix = fresh_prefix
        self.steps = 0
        self.enums = {}    # enum name -> [variant names in declaration order]
        self.opaque_ok = False   # unknown rvalues become opaque values instead of aborting

    def newvar(self, hint):
        self.fresh += 1
        return ('var', '%s%d_%s' % (self.prefix, self.fresh, re.sub(r'\W+', '_', hint)[:30]))

    # ---- places
    def place(self, p, env):
        p = p.strip()
        m = re.fullmatch(r'_\d+', p)
        if m:
            if p not in env: raise Unsupported('read of unassigned local %s' % p)
            return env[p]
        m = re.fullmatch(r'\(\*(.*)\)', p)
        if m and self.balanced(m.group(1)):
            return self.place(m.group(1), env)       # references are transparent
        m = re.fullmatch(r'\((.*)\.(\d+): [^()]*(?:\([^()]*\))?[^()]*\)', p)
        if m and self.balanced(m.group(1)):
            base = self.place(m.group(1), env)
            k = int(m.group(2))
            if isinstance(base, Closure): return base.fields[k]
            if isinstance(base, Struct): return base.fields[k]
            if isinstance(base, Enum): return base.payload[k]
            if isinstance(base, VariantView):
                for idx, (nm, pl) in base.base.variants.items():
                    if nm == base.name: return pl[k]
                raise Unsupported('variant %s' % base.name)
            if isinstance(base, tuple) and base[0] == 'tuple': return base[1 + k]
            raise Unsupported('field %d of %r' % (k, base))
        m = re.fullmatch(r'\((.*) as (\w+)\)', p)
        if m and self.balanced(m.group(1)):
            base = self.place(m.group(1), env)
            if isinstance(base, Enum):
                if base.name != m.group(2): raise Unsupported('variant mismatch')
                return base
            if isinstance(base, SymEnum):
                return VariantView(base, m.group(2))
            raise Unsupported('downcast of %r' % (base,))
        raise Unsupported('place ' + p)

    @staticmethod
    def balanced(s):
        d = 0
        for ch in s:
            if ch == '(': d += 1
            if ch == ')':
                d -= 1
                if d < 0: return False
        return d == 0

    def operand(self, o, env):
        o = o.strip()
        m = re.fullmatch(r'const (-?[\d.]+(?:[eE][-+]?\d+)?)f64', o)
        if m: return fconst(m.group(1))
        m = re.fullmatch(r'const (-?\d+)_(usize|i32|isize|u32|i64|u64)', o)
        if m: return ('iconst', int(m.group(1)))
        m = re.fullmatch(r'const (true|false)', o)
        if m: return ('bconst', m.group(1) == 'true')
        m = re.fullmatch(r'(?:copy|move|no_retag copy) (.*)', o)
        if m: return self.place(m.group(1), env)
        m = re.fullmatch(r'const (?:quantity::)?(RGAS|KB|NAV)', o)
        if m: return ('var', m.group(1))
        m = re.fullmatch(r'const (?:std|core)::f64::consts::(\w+)|const f64::(\w+)', o)
        if m:
            n = m.group(1) or m.group(2)
            if n in NAMED: return ('const', Fraction(float(NAMED[n])))
            raise Unsupported('named const ' + o)
        raise Unsupported('operand ' + o)

    def is_int(self, v):
        return isinstance(v, tuple) and len(v) > 0 and v[0] in ('iconst', 'ivar', 'iadd', 'isub', 'imul')

    def binop(self, op, a, b):
        if self.is_int(a) and self.is_int(b):
            if a[0] == 'iconst' and b[0] == 'iconst':
                if op == 'Add': return ('iconst', a[1] + b[1])
                if op == 'Sub': return ('iconst', a[1] - b[1])
                if op == 'Mul': return ('iconst', a[1] * b[1])
                if op in ('Lt', 'Le', 'Gt', 'Ge', 'Eq', 'Ne'):
                    return ('bconst', {'Lt': a[1] < b[1], 'Le': a[1] <= b[1], 'Gt': a[1] > b[1], 'Ge': a[1] >= b[1], 'Eq': a[1] == b[1], 'Ne': a[1] != b[1]}[op])
            t = {'Add': 'iadd', 'Sub': 'isub', 'Mul': 'imul'}.get(op)
            if t: return (t, a, b)
            return (op.lower(), a, b)
        t = {'Add': 'add', 'Sub': 'sub', 'Mul': 'mul', 'Div': 'div'}.get(op)
        if t: return (t, a, b)
        if op in ('Lt', 'Le', 'Gt', 'Ge', 'Eq', 'Ne'): return (op.lower(), a, b)
        raise Unsupported('binop ' + op)

    def rvalue(self, rv, env, dst_type):
        rv = rv.strip()
        m = re.fullmatch(r'(Add|Sub|Mul|Div|Lt|Le|Gt|Ge|Eq|Ne)\((.*)\)', rv)
        if m:
            a, b = self.split_args(m.group(2))
            return self.binop(m.group(1), self.operand(a, env), self.operand(b, env))
        m = re.fullmatch(r'(Add|Sub|Mul)WithOverflow\((.*)\)', rv)
        if m:
            a, b = self.split_args(m.group(2))
            return ('tuple', self.binop(m.group(1), self.operand(a, env), self.operand(b, env)), ('bconst', False))
        m = re.fullmatch(r'Neg\((.*)\)', rv)
        if m: return ('neg', self.operand(m.group(1), env))
        m = re.fullmatch(r'Not\((.*)\)', rv)
        if m: return ('not', self.operand(m.group(1), env))
        m = re.fullmatch(r'(.*) as f64 \(IntToFloat\)', rv)
        if m:
            v = self.operand(m.group(1), env)
            if v[0] == 'iconst': return ('const', Fraction(v[1]))
            return ('i2f', v)
        m = re.fullmatch(r'(.*) as (usize|i32|u32|i64|u64|isize) \(IntToInt\)', rv)
        if m: return self.operand(m.group(1), env)
        m = re.fullmatch(r'&(?:mut )?(.*)', rv)
        if m: return self.place(m.group(1), env)
        m = re.fullmatch(r'discriminant\((.*)\)', rv)
        if m:
            v = self.place(m.group(1), env)
            if isinstance(v, Enum): return ('iconst', v.idx)
            if isinstance(v, SymEnum): return v.tag
            raise Unsupported('discriminant of %r' % (v,))
        m = re.fullmatch(r'\{closure@([^}]*)\}(?: \{ (.*) \})?', rv)
        if m:
            fields = []
            if m.group(2):
                for part in self.split_args(m.group(2)):
                    fields.append(self.operand(part.split(':', 1)[1], env))
            return Closure(m.group(1), fields)
        m = re.fullmatch(r'([\w:]+(?:::<[^{}]*>)?) \{ (.*) \}', rv)
        if m:
            names, fields = [], []
            for part in self.split_args(m.group(2)):
                n, v = part.split(':', 1)
                names.append(n.strip()); fields.append(self.operand(v, env))
            return Struct(m.group(1), names, fields)
        m = re.fullmatch(r'(\w+)::(\w+)', rv)
        if m and m.group(1) in self.enums:
            return Enum(self.enums[m.group(1)].index(m.group(2)), m.group(2), [])
        m = re.fullmatch(r'(?:std::result::)?Result::<.*>::(Ok|Err)\((.*)\)', rv)
        if m:
            return Enum(0 if m.group(1) == 'Ok' else 1, m.group(1), [self.operand(m.group(2), env)])
        m = re.fullmatch(r'\((.*),\)', rv)
        if m: return ('tuple', self.operand(m.group(1), env))
        m = re.fullmatch(r'\((.*)\)', rv)
        if m and ',' in m.group(1):
            return ('tuple',) + tuple(self.operand(x, env) for x in self.split_args(m.group(1)))
        return self.operand(rv, env)

    @staticmethod
    def split_args(s):
        parts, cur, d = [], '', 0
        for ch in s:
            if ch in '([{<': d += 1
            if ch in ')]}>': d -= 1
            if ch == ',' and d == 0:
                parts.append(cur.strip()); cur = ''
            else:
                cur += ch
        if cur.strip(): parts.append(cur.strip())
        return parts

    FLOAT_UN = {'sqrt': 'sqrt', 'ln': 'ln', 'exp': 'exp', 'atan': 'atan', 'sin': 'sin', 'cos': 'cos', 'tanh': 'tanh'}

    def call(self, callee, argtxt, env, dst_type):
        args = []
        for a in (self.split_args(argtxt) if argtxt.strip() else []):
            try:
                args.append(self.operand(a, env))
            except Unsupported:
                if not self.opaque_ok: raise
                args.append(self.newvar('opaque'))
        m = re.fullmatch(r'<&?f64 as (Add|Sub|Mul|Div)(?:<&?f64>)?>::(add|sub|mul|div)', callee)
        if m: return self.binop(m.group(1), args[0], args[1])
        m = re.fullmatch(r'(?:core|std)::f64::<impl f64>::(\w+)', callee)
        if m:
            fn = m.group(1)
            if fn in self.FLOAT_UN: return ('un', fn, args[0])
            if fn == 'abs': return ('abs', args[0])
            if fn == 'powi':
                if args[1][0] != 'iconst': raise Unsupported('powi with symbolic exponent')
                return ('powi', args[0], args[1][1])
            # compound std float functions, read as the real functions they denote
            if fn == 'ln_1p': return ('un', 'ln', ('add', ('const', Fraction(1)), args[0]))
            if fn == 'exp_m1': return ('sub', ('un', 'exp', args[0]), ('const', Fraction(1)))
            if fn == 'recip': return ('div', ('const', Fraction(1)), args[0])
            if fn == 'mul_add': return ('add', ('mul', args[0], args[1]), args[2])
            if fn == 'powf' and args[1][0] == 'const':
                e = float(args[1][1])
                if e == int(e) and abs(e) <= 16: return ('powi', args[0], int(e))
                if e == 0.5: return ('un', 'sqrt', args[0])
                if e == 1.5: return ('mul', args[0], ('un', 'sqrt', args[0]))
            if fn == 'max': return ('ite', ('ge', args[0], args[1]), args[0], args[1])
            if fn == 'min': return ('ite', ('le', args[0], args[1]), args[0], args[1])
        if self.glue:
            v = self.glue(callee, args, dst_type, self)
            if v is not None: return v
        self.calls.append((callee, args))
        return self.newvar(callee.split('::')[-1])

    def run(self, bb='bb0', env=None):
        env = dict(self.args) if env is None else env
        return self.exec_block(bb, env)

    def exec_block(self, bb, env):
        if bb in getattr(self, 'redirect', {}):
            bb = self.redirect[bb](env)      # e.g. a loop header summarised by havoc: continue at the loop exit
        self.steps += 1
        if self.steps > 5000: raise Unsupported('too many blocks executed (loop?)')
        sts = self.f.blocks[bb]
        for s in sts[:-1]:
            m = re.match(r'(_\d+) = (.*);$', s)
            if not m:
                if s.startswith('StorageLive') or s.startswith('StorageDead') or s.startswith('nop') or s.startswith('FakeRead') or s.startswith('PlaceMention') or s.startswith('AscribeUserType') or s.startswith('Retag'):
                    continue
                raise Unsupported('statement ' + s)
            try:
                env[m.group(1)] = self.rvalue(m.group(2), env, self.f.types.get(m.group(1), ''))
            except Unsupported:
                if not self.opaque_ok: raise
                env[m.group(1)] = self.newvar('opaque')
        t = sts[-1]
        if t == 'return;':
            return env.get('_0')
        if t.startswith('goto -> '):
            return self.exec_block(t[8:].rstrip(';'), env)
        m = re.match(r'switchInt\((.*)\) -> \[(.*)\];', t)
        if m:
            v = self.operand(m.group(1), env)
            targets = [x.strip().split(': ') for x in m.group(2).split(',')]
            if v[0] in ('iconst', 'bconst'):
                val = int(v[1])
                for k, tgt in targets:
                    if k != 'otherwise' and int(k) == val: return self.exec_block(tgt, env)
                return self.exec_block(dict((k, tg) for k, tg in targets)['otherwise'], env)
            # symbolic bool: [0: bbF, otherwise: bbT]
            if len(targets) == 2 and targets[0][0] == '0' and targets[1][0] == 'otherwise':
                tf = self.exec_block(targets[0][1], dict(env))
                tt = self.exec_block(targets[1][1], dict(env))
                cond = ('ne', v, ('iconst', 0)) if self.is_int(v) else v
                return ('ite', cond, tt, tf)
            # symbolic int with explicit cases
            if self.is_int(v):
                other = dict((k, tg) for k, tg in targets)['otherwise']
                res = self.exec_block(other, dict(env))
                for k, tgt in reversed([x for x in targets if x[0] != 'otherwise']):
                    res = ('ite', ('eq', v, ('iconst', int(k))), self.exec_block(tgt, dict(env)), res)
                return res
            raise Unsupported('switch on %r' % (v,))
        m = re.match(r'assert\(.* -> \[success: (bb\d+)', t)
        if m: return self.exec_block(m.group(1), env)
        m = re.match(r'drop\(.*\) -> \[return: (bb\d+)', t)
        if m: return self.exec_block(m.group(1), env)
        m = re.match(r'(_\d+) = (.*) -> \[return: (bb\d+)', t)
        if m and m.group(2).rstrip().endswith(')'):
            dst, calltxt, tgt = m.group(1), m.group(2).rstrip(), m.group(3)
            # callee(args): the argument list is the last balanced parenthesis group (generic arguments of the
            # callee may contain parentheses themselves, e.g. from_shape_fn::<(usize, usize), ...>)
            depth = 0
            k = len(calltxt) - 1
            while k >= 0:
                if calltxt[k] == ')': depth += 1
                elif calltxt[k] == '(':
                    depth -= 1
                    if depth == 0: break
                k -= 1
            callee, argtxt = calltxt[:k], calltxt[k + 1:-1]
            env[dst] = self.call(callee, argtxt, env, self.f.types.get(dst, ''))
            return self.exec_block(tgt, env)
        if t == 'unreachable;' or re.match(r'(_\d+ = )?(core::panicking::)?panic\w*(::<.*>)?\(.*\) -> unwind', t):
            return ('var', 'UNREACHABLE')
        raise Unsupported('terminator ' + t)


# ---------------------------------------------------------------- emitters
def smt(t, decls, axioms):
    k = t[0]
    if k == 'var': decls.add(('real', t[1])); return t[1]
    if k == 'ivar': decls.add(('int', t[1])); return t[1]
    if k == 'const':
        f = t[1]
        s = '(/ %d.0 %d.0)' % (abs(f.numerator), f.denominator) if f.denominator != 1 else '%d.0' % abs(f.numerator)
        return '(- %s)' % s if f < 0 else s
    if k == 'iconst': return str(t[1]) if t[1] >= 0 else '(- %d)' % -t[1]
    if k == 'bconst': return 'true' if t[1] else 'false'
    if k in ('add', 'sub', 'mul', 'div'):
        return '(%s %s %s)' % ({'add': '+', 'sub': '-', 'mul': '*', 'div': '/'}[k], smt(t[1], decls, axioms), smt(t[2], decls, axioms))
    if k in ('iadd', 'isub', 'imul'):
        return '(%s %s %s)' % ({'iadd': '+', 'isub': '-', 'imul': '*'}[k], smt(t[1], decls, axioms), smt(t[2], decls, axioms))
    if k == 'neg': return '(- %s)' % smt(t[1], decls, axioms)
    if k == 'not': return '(not %s)' % smt(t[1], decls, axioms)
    if k == 'i2f': return '(to_real %s)' % smt(t[1], decls, axioms)
    if k == 'abs':
        a = smt(t[1], decls, axioms); return '(ite (>= %s 0.0) %s (- %s))' % (a, a, a)
    if k == 'powi':
        a = smt(t[1], decls, axioms); n = t[2]
        if n == 0: return '1.0'
        p = a if abs(n) == 1 else '(* %s)' % ' '.join([a] * abs(n))
        return p if n > 0 else '(/ 1.0 %s)' % p
    if k == 'un':
        a = smt(t[2], decls, axioms)
        decls.add(('uf', 'u_' + t[1]))
        e = '(u_%s %s)' % (t[1], a)
        if t[1] == 'sqrt':
            axioms.add('(>= %s 0.0)' % e); axioms.add('(=> (>= %s 0.0) (= (* %s %s) %s))' % (a, e, e, a)); axioms.add('(=> (>= %s 1.0) (>= %s 1.0))' % (a, e))
        elif t[1] == 'ln':
            axioms.add('(=> (>= %s 1.0) (>= %s 0.0))' % (a, e))
        elif t[1] == 'atan':
            axioms.add('(=> (>= %s 0.0) (>= %s 0.0))' % (a, e))
        elif t[1] == 'exp':
            axioms.add('(> %s 0.0)' % e); axioms.add('(=> (= %s 0.0) (= %s 1.0))' % (a, e))
        return e
    if k == 'ite': return '(ite %s %s %s)' % (smt(t[1], decls, axioms), smt(t[2], decls, axioms), smt(t[3], decls, axioms))
    if k in ('lt', 'le', 'gt', 'ge', 'eq', 'ne'):
        a, b = smt(t[1], decls, axioms), smt(t[2], decls, axioms)
        if k == 'ne': return '(not (= %s %s))' % (a, b)
        return '(%s %s %s)' % ({'lt': '<', 'le': '<=', 'gt': '>', 'ge': '>=', 'eq': '='}[k], a, b)
    raise Unsupported('smt of %r' % (t,))


def evalf(t, env):
    """concrete f64 evaluation of a term (translator validation against the native function)"""
    k = t[0]
    if k in ('var', 'ivar'): return env[t[1]]
    if k == 'const': return float(t[1])
    if k in ('iconst', 'bconst'): return t[1]
    if k in ('add', 'iadd'): return evalf(t[1], env) + evalf(t[2], env)
    if k in ('sub', 'isub'): return evalf(t[1], env) - evalf(t[2], env)
    if k in ('mul', 'imul'): return evalf(t[1], env) * evalf(t[2], env)
    if k == 'div': return evalf(t[1], env) / evalf(t[2], env)
    if k == 'neg': return -evalf(t[1], env)
    if k == 'not': return not evalf(t[1], env)
    if k == 'i2f': return float(evalf(t[1], env))
    if k == 'abs': return abs(evalf(t[1], env))
    if k == 'powi': return evalf(t[1], env) ** t[2]
    if k == 'un': return {'sqrt': math.sqrt, 'ln': math.log, 'exp': math.exp, 'atan': math.atan, 'sin': math.sin, 'cos': math.cos, 'tanh': math.tanh}[t[1]](evalf(t[2], env))
    if k == 'ite': return evalf(t[2], env) if evalf(t[1], env) else evalf(t[3], env)
    if k == 'lt': return evalf(t[1], env) < evalf(t[2], env)
    if k == 'le': return evalf(t[1], env) <= evalf(t[2], env)
    if k == 'gt': return evalf(t[1], env) > evalf(t[2], env)
    if k == 'ge': return evalf(t[1], env) >= evalf(t[2], env)
    if k == 'eq': return evalf(t[1], env) == evalf(t[2], env)
    if k == 'ne': return evalf(t[1], env) != evalf(t[2], env)
    raise Unsupported('eval of %r' % (t,))


def solve(script, timeout=60):
    """tactic portfolio on one script body (without check-sat); returns (answer, tactic, seconds)"""
    import subprocess, time, os, tempfile
    tactics = ['(check-sat)', '(check-sat-using (then simplify solve-eqs qfnra-nlsat))', '(check-sat-using (then (! simplify :som true) qfnra-nlsat))',
               '(check-sat-using (then simplify purify-arith solve-eqs qfnra-nlsat))']
    t0 = time.time()
    last = 'unknown'
    full = timeout
    for tac, timeout in [(t, min(10, full)) for t in tactics] + [(t, full) for t in tactics]:
        with tempfile.NamedTemporaryFile('w', suffix='.smt2', delete=False, dir=os.environ.get('VERIF_TMP', None)) as f:
            f.write(script + '\n' + tac + '\n')
            path = f.name
        try:
            p = subprocess.run(['z3', '-T:%d' % timeout, path], stdout=subprocess.PIPE, stderr=subprocess.PIPE, text=True)
        finally:
            os.unlink(path)
        o = p.stdout.strip()
        if '(error' in o:
            last = 'error: ' + o[:200]; continue
        if o.startswith('unsat'): return 'unsat', tac, time.time() - t0
        if o.startswith('sat'): return 'sat', tac, time.time() - t0
        last = o[:60] or 'unknown'
    return last, None, time.time() - t0
