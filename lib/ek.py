"""E-K driver: run Kani harnesses (external crate /verif/kani or in-crate via the cfg(kani) hook), parse
per-check results, decide by harness assertions + unwinding assertions + cover (vacuity) only."""
import os, re, time, json, shutil, subprocess, concurrent.futures
from common import *

KANI_DIR = os.path.join(VERIF, 'kani')
KWORK = os.path.join(WORK, 'kani')


def run_group(args):
    """one `cargo kani` invocation for a group of harnesses (compiled once, verified sequentially)"""
    gid, where, harnesses, timeout, mem_gb = args
    os.makedirs(KWORK, exist_ok=True)
    tdir = os.path.join(KWORK, 'tgt-%s-%d' % (where, gid))
    log = os.path.join(KWORK, 'log-%s-%d.txt' % (where, gid))
    if where == 'ext':
        shutil.copy(os.path.join(REPO, 'Cargo.lock'), os.path.join(KANI_DIR, 'Cargo.lock'))
        cwd = KANI_DIR
        base = 'cargo kani --target-dir %s -Z stubbing' % tdir
    else:
        cwd = REPO
        base = 'cargo kani --manifest-path %s/feos-core/Cargo.toml --target-dir %s -Z stubbing' % (REPO, tdir)
    pre = 'h::' if where == 'ext' else 'state::verif_kani::'
    t0 = time.time()
    rc = 0
    # one cargo-kani invocation per harness (the build is shared through the target dir): a harness that hits the time or
    # memory limit does not take the rest of its group with it
    with open(log, 'w') as f:
        for h in harnesses:
            cmd = 'ulimit -v %d; exec timeout %d %s --exact --harness %s%s' % (mem_gb * 1024 * 1024, timeout, base, pre, h)
            f.write('\n##### harness %s\n' % h); f.flush()
            p = subprocess.run(['bash', '-c', cmd], cwd=cwd, stdout=f, stderr=subprocess.STDOUT, env=ENV)
            f.write('\n##### rc %s = %d\n' % (h, p.returncode)); f.flush()
            rc = rc or p.returncode
    return gid, where, harnesses, rc, log, time.time() - t0


def parse_log(log):
    """-> {harness: {'status', 'time', 'failed': [...], 'checks': n, 'covers': {'satisfied': n, 'unsat': n}}}"""
    txt = open(log, errors='replace').read()
    res = {}
    parts = re.split(r'Checking harness ([\w:]+)\.\.\.', txt)
    for i in range(1, len(parts), 2):
        name = parts[i].split('::')[-1]
        body = parts[i + 1]
        r = {'status': 'unknown', 'time': None, 'failed': [], 'checks': 0, 'cover_sat': 0, 'cover_unsat': 0, 'ignored_side_checks': 0}
        for m in re.finditer(r'Check \d+: (.+)\n\s*- Status: (\w+)\n\s*- Description: "(.*)"\n(?:\s*- Location: (.*)\n)?', body):
            cid, status, desc, loc = m.groups()
            r['checks'] += 1
            if '.cover.' in cid:
                if status == 'SATISFIED': r['cover_sat'] += 1
                else: r['cover_unsat'] += 1
                continue
            if status in ('FAILURE', 'UNDETERMINED'):
                l = (loc or '').strip()
                mine = ('.assertion.' in cid and ('/verif/kani' in l or l.startswith('src/') or 'in_crate' in l)) or '.unwind.' in cid
                if mine:
                    r['failed'].append({'check': cid, 'status': status, 'description': desc, 'location': loc})
                else:
                    r['ignored_side_checks'] += 1
        m = re.search(r'size of program expression: (\d+) steps', body)
        r['steps'] = int(m.group(1)) if m else 0
        m = re.search(r'Generated (\d+) VCC\(s\), (\d+) remaining', body)
        r['vccs'] = int(m.group(1)) if m else 0
        m = re.search(r'VERIFICATION:- (\w+)', body)
        if m: r['status'] = m.group(1)
        m = re.search(r'Verification Time: ([\d.]+)s', body)
        if m: r['time'] = float(m.group(1))
        res[name] = r
    return res, txt


def run_harnesses(spec, timeout=2400, mem_gb=40, procs=16):
    """spec: list of (where, harness); returns {harness: result dict}"""
    groups = {}
    ext = [h for w, h in spec if w == 'ext']
    inc = [h for w, h in spec if w == 'incrate']
    jobs = []
    n_inc = min(len(inc), max(1, procs // 4)) if inc else 0
    n_ext = max(1, min(len(ext), procs - n_inc)) if ext else 0
    for k in range(n_ext):
        jobs.append((k, 'ext', ext[k::n_ext], timeout, mem_gb))
    for k in range(n_inc):
        jobs.append((k, 'incrate', inc[k::n_inc], timeout, mem_gb))
    out = {}
    with concurrent.futures.ThreadPoolExecutor(max_workers=procs) as ex:
        for gid, where, hs, rc, log, dt in ex.map(run_group, jobs):
            parsed, txt = parse_log(log)
            for h in hs:
                r = parsed.get(h)
                if r is None:
                    tail = txt[-600:].replace('\n', ' | ')
                    r = {'status': 'NOT_RUN', 'failed': [], 'checks': 0, 'cover_sat': 0, 'cover_unsat': 0, 'time': None, 'note': 'rc=%s %s' % (rc, tail)}
                r['group_rc'] = rc
                r['log'] = log
                r['where'] = where
                out[h] = r
            shutil.rmtree(os.path.join(KWORK, 'tgt-%s-%d' % (where, gid)), ignore_errors=True)
    return out


def decide(outcome, prop, results, expect_cover=True, soft=()):
    """harness verdicts -> outcome; returns coverage pieces.  `soft`: harnesses of the thorough tier whose resource
    exhaustion (time / memory limit of this machine) is recorded as 'undecided' (nothing claimed) instead of making the
    run inconclusive; a failed harness assertion is a violation regardless"""
    decided = 0
    undecided = {}
    nontrivial = 0
    checks = 0
    per = {}
    solver_s = 0.0
    for h, r in sorted(results.items()):
        checks += r['checks']
        solver_s += r['time'] or 0.0
        if r['failed']:
            real = [f for f in r['failed'] if '.unwind.' not in f['check']]
            if real:
                key = {'engine': 'E-K', 'harness': h}
                outcome.violation(key, '%s: Kani harness %s: %s at %s' % (prop, h, real[0]['description'], real[0]['location']),
                                  {'harness': h, 'where': r['where'], 'failed_checks': r['failed'], 'log': r['log'],
                                   'cmd': 'cargo kani --harness %s -Z stubbing (see /verif/lib/ek.py)' % h})
                per[h] = 'FAILED: ' + real[0]['description']
            else:
                outcome.inconclusive.append('harness %s: unwinding assertion failed (bound too small)' % h)
                per[h] = 'unwind bound too small'
            continue
        if r['status'] == 'SUCCESSFUL':
            if expect_cover and r['cover_sat'] == 0:
                outcome.inconclusive.append('harness %s: vacuity witness (kani::cover) not satisfied' % h)
                per[h] = 'vacuous'
                continue
            decided += 1
            nontrivial += 1 if r['cover_sat'] > 0 else 0
            per[h] = 'SUCCESSFUL (%d checks, %.0fs, %d cover satisfied)' % (r['checks'], r['time'] or 0, r['cover_sat'])
        elif r['status'] == 'FAILED':
            # only CBMC side checks failed (NaN/overflow checks that are not properties of feos)? then it is a pass
            if r['checks'] > 0 and not r['failed'] and (r['cover_sat'] > 0 or not expect_cover):
                decided += 1; nontrivial += 1
                per[h] = 'SUCCESSFUL on harness assertions (%d CBMC side checks ignored)' % r['ignored_side_checks']
            else:
                outcome.inconclusive.append('harness %s: FAILED without a harness assertion (status %s)' % (h, r['status']))
                per[h] = 'inconclusive'
        else:
            if h in soft:
                undecided[h] = '%s (not decided within the time / memory limit of this run; nothing is claimed for it)' % r['status']
                per[h] = 'undecided: ' + r['status']
                continue
            outcome.inconclusive.append('harness %s: %s %s' % (h, r['status'], r.get('note', '')[:300]))
            per[h] = r['status']
    return {'undecided_soft': undecided, 'states': max(1, sum(r.get('steps', 0) for r in results.values())), 'transitions': max(1, sum(r.get('vccs', 0) for r in results.values())),
            'harnesses': per, 'cbmc_checks_decided': checks, 'harnesses_decided': decided, 'harnesses_nonvacuous': nontrivial, 'kani_verification_s': round(solver_s, 1)}
