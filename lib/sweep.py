#!/usr/bin/env python3-vt
"""E-S: relational cut-point sweeping over a traced expression DAG, decided by z3.

The DAG (written by /verif/symtrace) contains two (or more) symbolic executions of the real
feos code in one hash-consed arena plus `out a b d name` lines claiming  b = lam^d * a.
For every node v (topological order) we look for an earlier node u and an integer d with
v = lam^d * u at K random evaluation points (hint only) and turn each hint into an SMT
obligation over the cones of v and u down to a frontier of already related nodes.  Only
`unsat` answers add a relation.  The claim for an output holds iff its relation is in the
proved set.  Terms are over the reals; f64 constants are exact rationals; constant
sub-expressions are folded in exact rational arithmetic; transcendental functions are
uninterpreted with ground axiom instances.
"""
import math, random, sys, time, json, re
from fractions import Fraction
import z3

EPS64 = 2.220446049250313e-16
LAMVAR = 2  # x[2] = lam


def j0(x):
    return 1.0 - x * x / 6 if abs(x) < 1e-8 else math.sin(x) / x


def j1(x):
    return x / 3 if abs(x) < 1e-8 else (math.sin(x) - x * math.cos(x)) / (x * x)


def j2(x):
    return x * x / 15 if abs(x) < 1e-8 else ((3 - x * x) * math.sin(x) - 3 * x * math.cos(x)) / x ** 3


UN = {
    'tanh': math.tanh, 'cbrt': lambda x: math.copysign(abs(x) ** (1 / 3), x), 'sinh': math.sinh,
    'cosh': math.cosh, 'atan': math.atan, 'exp_m1': math.expm1, 'sph_j0': j0, 'sph_j1': j1, 'sph_j2': j2,
    'sin': math.sin, 'cos': math.cos, 'tan': math.tan, 'exp': math.exp, 'ln': math.log, 'sqrt': math.sqrt,
    'ln_1p': math.log1p, 'abs': abs, 'log2': math.log2, 'log10': math.log10, 'exp2': lambda x: 2.0 ** x,
    'asin': math.asin, 'acos': math.acos, 'asinh': math.asinh, 'acosh': math.acosh, 'atanh': math.atanh,
}


class Dag:
    def __init__(self, path, eps_to_zero=False, merge_ulps=0, algebraic_sqrt2=False):
        self.algebraic_sqrt2 = algebraic_sqrt2
        self.merge_ulps = merge_ulps
        self.merged_constants = 0
        self.nodes = []
        self.outs = []      # (a, b, d, name, wa, wb)
        self.recalls = []
        self.varnames = {}
        self.varwit = {}
        self.meta = {}
        self.ops = 0
        for line in open(path):
            p = line.split()
            if not p:
                continue
            if p[0] == 'meta':
                self.meta = json.loads(line[5:])
                continue
            if p[0] == 'ops':
                self.ops = int(p[1]); continue
            if p[0] == 'varname':
                self.varnames[int(p[1])] = p[2]; self.varwit[int(p[1])] = float(p[3]); continue
            if p[0] == 'out':
                self.outs.append((int(p[1]), int(p[2]), int(p[3]), p[4], float(p[5]), float(p[6]))); continue
            if p[0] == 'recall':
                self.recalls.append(int(p[1])); continue
            op = p[1]
            if op == 'const':
                x = float(p[2])
                if eps_to_zero and x == EPS64:
                    x = 0.0
                self.nodes.append(('const', x))
            elif op == 'var': self.nodes.append(('var', int(p[2])))
            elif op in ('add', 'sub', 'mul', 'div'): self.nodes.append((op, int(p[2]), int(p[3])))
            elif op == 'neg': self.nodes.append(('neg', int(p[2])))
            elif op == 'powi': self.nodes.append(('powi', int(p[2]), int(p[3])))
            elif op == 'powf': self.nodes.append(('powf', int(p[2]), float(p[3])))
            elif op == 'un': self.nodes.append(('un', int(p[2]), p[3]))
            else: raise ValueError(line)
        if merge_ulps:
            self.merge_constants(merge_ulps)
        if algebraic_sqrt2:
            # literals that are the f64 images of a + b*sqrt(2) are read as that algebraic number (the std constant
            # SQRT_2 and rustc's constant-folded 1 +- SQRT_2); ('alg', a, b) nodes are not folded
            tab = {2.0 ** 0.5: (0, 1), 1.0 + 2.0 ** 0.5: (1, 1), 1.0 - 2.0 ** 0.5: (1, -1), 2.0 * 2.0 ** 0.5: (0, 2)}
            self.nodes = [('alg',) + tab[n[1]] if (n[0] == 'const' and n[1] in tab) else n for n in self.nodes]
        self.fold_constants()

    def merge_constants(self, ulps):
        """identify literal constants that differ by at most `ulps` units in the last place (roundoff of
        parameter preprocessing done in a different operation order); counted, part of the claim"""
        vals = sorted(set(n[1] for n in self.nodes if n[0] == 'const' and math.isfinite(n[1]) and n[1] != 0.0))
        rep = {}
        prev = None
        for v in vals:
            if prev is not None and (v > 0) == (prev > 0) and abs(v - prev) <= ulps * 2.220446049250313e-16 * abs(prev):
                rep[v] = rep.get(prev, prev)
                self.merged_constants += 1
            prev = v
        if rep:
            self.nodes = [('const', rep.get(n[1], n[1])) if n[0] == 'const' else n for n in self.nodes]

    def children(self, i):
        n = self.nodes[i]
        if n[0] in ('add', 'sub', 'mul', 'div'): return [n[1], n[2]]
        if n[0] in ('neg', 'powi', 'powf', 'un'): return [n[1]]
        return []

    def fold_constants(self):
        """exact rational value of every constant sub-expression (None: not constant / not finite)"""
        N = len(self.nodes)
        self.cval = [None] * N
        self.nonfinite_consts = []
        import bisect
        lits = sorted(set(n[1] for n in self.nodes if n[0] == 'const' and math.isfinite(n[1]) and n[1] != 0.0)) if self.merge_ulps else []
        self.snapped_constants = 0

        def snap(fr):
            """a folded constant within merge_ulps of a literal constant of the DAG is identified with it (the library
            computed the same quantity in f64, e.g. 0.5*(s_i+s_j) precomputed vs (s_i+s_j)*0.5 on dual numbers)"""
            if not lits or fr == 0: return fr
            x = float(fr)
            j = bisect.bisect_left(lits, x)
            for c in lits[max(0, j - 1):j + 1]:
                if Fraction(c) != fr and abs(c - x) <= self.merge_ulps * 2.220446049250313e-16 * abs(c):
                    self.snapped_constants += 1
                    return Fraction(c)
            return fr
        for i, n in enumerate(self.nodes):
            k = n[0]
            try:
                if k == 'const':
                    if math.isfinite(n[1]):
                        self.cval[i] = Fraction(n[1])
                    else:
                        self.nonfinite_consts.append(i)
                elif k in ('add', 'sub', 'mul', 'div'):
                    a, b = self.cval[n[1]], self.cval[n[2]]
                    if a is not None and b is not None:
                        if k == 'add': self.cval[i] = snap(a + b)
                        elif k == 'sub': self.cval[i] = snap(a - b)
                        elif k == 'mul': self.cval[i] = snap(a * b)
                        elif b != 0: self.cval[i] = snap(a / b)
                elif k == 'neg':
                    if self.cval[n[1]] is not None: self.cval[i] = -self.cval[n[1]]
                elif k == 'powi':
                    a = self.cval[n[1]]
                    if a is not None and (n[2] >= 0 or a != 0): self.cval[i] = snap(a ** n[2])
            except (ZeroDivisionError, OverflowError):
                pass


def sig(vals):
    return tuple(float('%.9e' % x) for x in vals)


class Sweeper:
    def __init__(self, dag, ranges, fixed=None, seed=1, K=4, degrees=range(-6, 7), maxdepth=5,
                 qtimeout=3000, signtimeout=2000, budget_s=1e9, lam_is_scale=True):
        """ranges: {var index: (lo, hi)} for the evaluation points; fixed: {var index: value} (facts x = value)"""
        self.dag = dag
        self.nodes = dag.nodes
        self.N = len(dag.nodes)
        self.fixed = fixed or {}
        self.K = K
        self.DR = list(degrees) if lam_is_scale else [0]
        self.maxdepth = maxdepth
        self.qtimeout = qtimeout
        self.signtimeout = signtimeout
        self.budget_s = budget_s
        rnd = random.Random(seed)
        self.pts = []
        for k in range(K):
            pt = {}
            for v in sorted(set(list(ranges) + list(self.fixed))):
                if v in self.fixed:
                    pt[v] = self.fixed[v]
                else:
                    lo, hi = ranges[v]
                    pt[v] = rnd.uniform(lo, hi)
            self.pts.append(pt)
        self.evaluate()
        self.R = z3.RealSort()
        self.ufs = {}
        self.lam = z3.Real('lam')
        self.canon = {}
        self.repvar = {}
        self.sign = {}
        self.nonzero = set()
        self.deep_tried = set()
        self.stats = {'sign_queries': 0, 'sign_unsat': 0, 'rel_queries': 0, 'rel_unsat': 0, 'rel_failed_candidates': 0,
                      'solver_s': 0.0, 'representatives': 0, 'nodes': self.N, 'budget_exhausted': False}
        self.samples = []
        self.split = max([a for a, b, d, n, wa, wb in dag.outs] + [0]) + 1

    # ---------- numeric evaluation (hints only)
    def evaluate(self):
        K = self.K
        nodes = self.nodes
        val = [[0.0] * K for _ in range(self.N)]
        for i, n in enumerate(nodes):
            cv = self.dag.cval[i]
            for k in range(K):
                try:
                    if cv is not None: v = float(cv)
                    elif n[0] == 'const': v = n[1]
                    elif n[0] == 'alg': v = n[1] + n[2] * 2.0 ** 0.5
                    elif n[0] == 'var': v = self.pts[k][n[1]]
                    elif n[0] == 'add': v = val[n[1]][k] + val[n[2]][k]
                    elif n[0] == 'sub': v = val[n[1]][k] - val[n[2]][k]
                    elif n[0] == 'mul': v = val[n[1]][k] * val[n[2]][k]
                    elif n[0] == 'div': v = val[n[1]][k] / val[n[2]][k]
                    elif n[0] == 'neg': v = -val[n[1]][k]
                    elif n[0] == 'powi': v = val[n[1]][k] ** n[2]
                    elif n[0] == 'powf': v = val[n[1]][k] ** n[2]
                    elif n[0] == 'un': v = UN[n[2]](val[n[1]][k])
                    if isinstance(v, complex): v = float('nan')
                except (ZeroDivisionError, ValueError, OverflowError):
                    v = float('nan')
                val[i][k] = v
        self.val = val

    # ---------- z3 term construction
    def uf(self, name):
        if name not in self.ufs:
            self.ufs[name] = z3.Function('u_' + name, self.R, self.R)
        return self.ufs[name]

    @staticmethod
    def rat(f):
        if f.denominator == 1:
            return z3.RealVal(str(f.numerator))
        return z3.RealVal(str(f.numerator)) / z3.RealVal(str(f.denominator))

    def lampow(self, d):
        if d == 0: return z3.RealVal(1)
        t = self.lam
        for _ in range(abs(d) - 1): t = t * self.lam
        return t if d > 0 else 1 / t

    def rv(self, r):
        if r not in self.repvar: self.repvar[r] = z3.Real('r%d' % r)
        return self.repvar[r]

    def is_lam(self, i):
        return self.nodes[i] == ('var', LAMVAR)

    def build(self, roots, depth):
        nodes, canon, dag = self.nodes, self.canon, self.dag
        dist = {}
        frontier = list(roots)
        for r in roots: dist[r] = 0
        while frontier:
            x = frontier.pop(0)
            y = x
            if y in canon and canon[y][0] != y: y = canon[y][0]
            if dag.cval[y] is not None: continue
            step = 0 if nodes[y][0] in ('add', 'sub', 'neg') else 1
            if dist[x] + step >= depth: continue
            for c in dag.children(y):
                if c not in dist or dist[c] > dist[x] + step:
                    dist[c] = dist[x] + step; frontier.append(c)
            if y != x and y not in dist: dist[y] = dist[x]
        E = set(dist)
        cache = {}
        axioms = []

        def T(x):
            if x in cache: return cache[x]
            n = nodes[x]
            if dag.cval[x] is not None: e = self.rat(dag.cval[x])
            elif n[0] == 'alg':
                S = z3.Real('sqrt2'); e = n[1] + n[2] * S
                axioms.extend([S * S == 2, S > 0])
            elif n[0] == 'var': e = self.lam if n[1] == LAMVAR else self.rv(x)
            elif x in canon and canon[x][0] != x:
                r, d = canon[x]
                e = T(r) * self.lampow(d) if d != 0 else T(r)
            elif x in E:
                a = T(n[1])
                if n[0] in ('add', 'sub', 'mul', 'div'):
                    b = T(n[2])
                    e = {'add': a + b, 'sub': a - b, 'mul': a * b, 'div': a / b}[n[0]]
                elif n[0] == 'neg': e = -a
                elif n[0] == 'powi':
                    k = abs(n[2]); e = z3.RealVal(1)
                    for _ in range(k): e = e * a
                    if n[2] < 0: e = 1 / e
                elif n[0] == 'powf':
                    e = self.uf('powf_%s' % float(n[2]).hex().replace('.', '_').replace('-', 'm').replace('+', 'p'))(a)
                    axioms.append(z3.Implies(a > 0, e > 0))
                elif n[0] == 'un':
                    e = self.uf(n[2])(a)
                    if n[2] == 'exp':
                        axioms.extend([e > 0, z3.Implies(a < 0, e < 1), z3.Implies(a > 0, e > 1), z3.Implies(a == 0, e == 1)])
                    elif n[2] == 'sqrt':
                        axioms.extend([z3.Implies(a >= 0, z3.And(e >= 0, e * e == a)), z3.Implies(a > 0, e > 0)])
                    elif n[2] == 'cbrt':
                        axioms.extend([e * e * e == a, z3.Implies(a > 0, e > 0), z3.Implies(a < 0, e < 0)])
                    elif n[2] == 'ln':
                        axioms.extend([z3.Implies(a > 1, e > 0), z3.Implies(z3.And(a > 0, a < 1), e < 0), z3.Implies(a == 1, e == 0)])
                    elif n[2] == 'ln_1p':
                        axioms.extend([z3.Implies(a > 0, e > 0), z3.Implies(z3.And(a > -1, a < 0), e < 0), z3.Implies(a == 0, e == 0)])
                    elif n[2] == 'abs':
                        axioms.append(e == z3.If(a >= 0, a, -a))
                    elif n[2] in ('tanh', 'cosh', 'sinh'):
                        sh, ch, th = self.uf('sinh')(a), self.uf('cosh')(a), self.uf('tanh')(a)
                        axioms.extend([ch * ch - sh * sh == 1, ch >= 1, th * ch == sh, th < 1, th > -1,
                                       z3.Implies(a > 0, sh > 0), z3.Implies(a < 0, sh < 0), z3.Implies(a == 0, sh == 0)])
                    elif n[2] == 'exp_m1':
                        axioms.extend([e > -1, z3.Implies(a > 0, e > 0), z3.Implies(a < 0, e < 0), z3.Implies(a == 0, e == 0)])
                    elif n[2] == 'atan':
                        axioms.extend([z3.Implies(a > 0, e > 0), z3.Implies(a < 0, e < 0), z3.Implies(a == 0, e == 0)])
            else:
                e = self.rv(x)
            cache[x] = e
            return e

        def facts():
            fs = []
            for x in list(cache):
                if dag.cval[x] is not None: continue
                r = x if (x not in canon) else canon[x][0]
                for y in (x, r):
                    if y in self.repvar and dag.cval[y] is None:
                        if y in self.sign:
                            fs.append(self.rv(y) > 0 if self.sign[y] > 0 else self.rv(y) < 0)
                        elif y in self.nonzero:
                            fs.append(self.rv(y) != 0)
                n = nodes[x]
                if n[0] == 'var' and n[1] in self.fixed and x in self.repvar:
                    fs.append(self.rv(x) == self.rat(Fraction(self.fixed[n[1]])))
            return fs + axioms

        T.facts = facts
        T.cache = cache
        return T

    def check(self, s):
        t0 = time.time()
        r = s.check()
        self.stats['solver_s'] += time.time() - t0
        return r

    def prove(self, v, u, d, maxdepth=None, qtimeout=None):
        retried = False
        maxdepth = maxdepth or self.maxdepth
        qtimeout = qtimeout or self.qtimeout
        while True:
            last_T = None
            for depth in range(1, maxdepth + 1):
                s = z3.Solver(); s.set('timeout', qtimeout)
                s.add(self.lam > 0)
                T = self.build([v] if (self.nodes[u][0] == 'var' or self.dag.cval[u] is not None) else [v, u], depth)
                ev = T(v); eu = T(u)
                for f in T.facts(): s.add(f)
                goal = ev != eu * self.lampow(d)
                s.add(goal)
                self.stats['rel_queries'] += 1
                r = self.check(s)
                if r == z3.unsat:
                    self.stats['rel_unsat'] += 1
                    if len(self.samples) < 6 and depth >= 2 and self.dag.cval[u] is None:
                        self.samples.append({'kind': 'relation', 'claim': 'n%d = lam^%d * n%d' % (v, d, u), 'cone_depth': depth,
                                             'negated_goal': str(goal)[:400], 'answer': 'unsat'})
                    return True
                if depth == min(3, maxdepth): last_T = T
            # demand-driven sign lemmas: try harder on the representatives at the frontier, then retry once
            if retried or last_T is None:
                break
            retried = True
            new = False
            for x in list(last_T.cache):
                r_ = self.canon[x][0] if x in self.canon else x
                if r_ in self.sign or r_ in self.deep_tried or self.dag.cval[r_] is not None or self.nodes[r_][0] == 'var':
                    continue
                self.deep_tried.add(r_)
                vals = self.val[r_]
                if not all(math.isfinite(y) for y in vals) or any(y == 0 for y in vals):
                    continue
                sg = [y > 0 for y in vals]
                if all(sg) or not any(sg):
                    if self.prove_sign(r_, 1 if all(sg) else -1, depths=(2, 3), timeout=self.signtimeout):
                        new = True
            if not new:
                break
        self.stats['rel_failed_candidates'] += 1
        return False

    def prove_sign(self, i, want, depths=(1,), timeout=300):
        n = self.nodes[i]
        if n[0] == 'un' and n[2] == 'exp' and want == 1:
            self.sign[i] = 1
            return True
        for depth in depths:
            so = z3.Solver(); so.set('timeout', timeout); so.add(self.lam > 0)
            T = self.build([i], depth); e = T(i)
            for f in T.facts(): so.add(f)
            so.add(e <= 0 if want > 0 else e >= 0)
            self.stats['sign_queries'] += 1
            if self.check(so) == z3.unsat:
                self.sign[i] = want; self.stats['sign_unsat'] += 1
                return True
        return False

    def run(self):
        nodes, dag, K = self.nodes, self.dag, self.K
        bysig = {}
        t_start = time.time()
        lamv = [self.pts[k].get(LAMVAR, 1.0) for k in range(K)]
        # only nodes in the fan-in of a claimed output matter
        live = set()
        stack = [x for a, b, d, nm, wa, wb in dag.outs if not (a == b and d == 0) for x in (a, b)]
        while stack:
            x = stack.pop()
            if x in live: continue
            live.add(x)
            stack.extend(dag.children(x))
        self.stats['live_nodes'] = len(live)
        for i, n in enumerate(nodes):
            if i not in live:
                self.canon[i] = (i, 0); continue
            if dag.cval[i] is not None:
                self.canon[i] = (i, 0); bysig.setdefault(sig([float(dag.cval[i])] * K), []).append(i); continue
            if n[0] == 'const':  # non-finite constant
                self.canon[i] = (i, 0); continue
            if n[0] == 'alg':
                self.canon[i] = (i, 0); bysig.setdefault(sig(self.val[i]), []).append(i); continue
            if n[0] == 'var':
                self.canon[i] = (i, 0)
                if n[1] not in self.fixed: self.sign[i] = 1
                elif self.fixed[n[1]] > 0: self.sign[i] = 1
                bysig.setdefault(sig(self.val[i]), []).append(i); continue
            found = False
            finite = all(math.isfinite(x) for x in self.val[i])
            if finite and time.time() - t_start < self.budget_s:
                ref = i < self.split   # inside the reference execution only cheap equalities are attempted
                for d in ([0] if ref else sorted(self.DR, key=abs)):
                    try:
                        key = sig([self.val[i][k] / lamv[k] ** d for k in range(K)])
                    except (ZeroDivisionError, OverflowError):
                        continue
                    for u in bysig.get(key, []):
                        if d != 0 and dag.cval[u] is not None and dag.cval[u] == 0: continue
                        if self.prove(i, u, d, maxdepth=self.maxdepth + 3 if n[0] in ('add', 'sub') else None):
                            self.canon[i] = (u, d); found = True; break
                    if found: break
            elif finite:
                self.stats['budget_exhausted'] = True
            # definedness domain of the reference execution: its denominators are non-zero
            if i < self.split:
                den = None
                if n[0] == 'div': den = n[2]
                elif n[0] == 'powi' and n[2] < 0: den = n[1]
                if den is not None and den in self.canon:
                    self.nonzero.add(self.canon[den][0])
            if not found:
                self.canon[i] = (i, 0); self.stats['representatives'] += 1
                if finite:
                    sg = [self.val[i][k] > 0 for k in range(K)]
                    zz = [self.val[i][k] == 0 for k in range(K)]
                    if not any(zz) and (all(sg) or not any(sg)):
                        self.prove_sign(i, 1 if all(sg) else -1)
                    bysig.setdefault(sig(self.val[i]), []).append(i)
        # extra effort on the claimed output relations themselves: deeper cones, longer timeout
        for a, b, d, name, wa, wb in self.dag.outs:
            ra, da = self.canon.get(a, (a, 0)); rb, db = self.canon.get(b, (b, 0))
            if ra == rb and db - da == d: continue
            if not all(math.isfinite(x) for x in self.val[a] + self.val[b]): continue
            ok = all(abs(self.val[b][k] - self.val[a][k] * lamv[k] ** d) <= 1e-9 * max(abs(self.val[b][k]), 1e-300) for k in range(K))
            if not ok or time.time() - t_start > self.budget_s: continue
            if self.canon.get(b, (b, 0))[0] == b and b > a:
                save = self.maxdepth
                for md, to in ((8, 10000), (12, 30000)):
                    self.maxdepth = md
                    if self.prove_at(b, a, d, md, to):
                        self.canon[b] = (a, d) if self.canon.get(a, (a, 0))[0] == a else (ra, d + da)
                        break
                self.maxdepth = save
        return self.results()

    def direct(self, timeout=60000):
        """no sweeping: one query per output over the full cones, with a tactic portfolio"""
        for a, b, d, name, wa, wb in self.dag.outs:
            for i in range(self.N):
                self.canon.setdefault(i, (i, 0))
                n = self.nodes[i]
                if n[0] == 'var' and n[1] not in self.fixed: self.sign[i] = 1
            if a == b and d == 0: continue
            ok = False
            tolerance = None
            makers = [lambda: z3.Then('simplify', 'solve-eqs', 'qfnra-nlsat').solver(), lambda: z3.Solver(),
                      lambda: z3.Then(z3.With('simplify', som=True), 'qfnra-nlsat').solver()]
            for tol in (None, 1e-12):
                for to in (min(10000, timeout), timeout):
                    for mk in makers:
                        s = mk(); s.set('timeout', to)
                        s.add(self.lam > 0)
                        T = self.build([b, a], 10 ** 6)
                        ev = T(b); eu = T(a) * self.lampow(d)
                        for f in T.facts(): s.add(f)
                        if tol is None:
                            s.add(ev != eu)
                        else:
                            # roundoff of f64 coefficient preprocessing (c/(k+1) computed in f64): relative tolerance
                            bound = z3.RealVal('1/1000000000000') * (z3.If(eu >= 0, eu, -eu) + 1)
                            s.add(z3.Or(ev - eu > bound, eu - ev > bound))
                        self.stats['rel_queries'] += 1
                        try:
                            r = self.check(s)
                        except z3.Z3Exception:
                            continue
                        if r == z3.unsat:
                            self.stats['rel_unsat'] += 1
                            ok = True; tolerance = tol
                            break
                        if r == z3.sat and tol is None:
                            break   # exact identity refuted (may be roundoff): go on to the tolerance form
                    if ok or (tol is None and r == z3.sat): break
                if ok: break
            if ok:
                self.canon[b] = (a, d)
                self.samples.append({'kind': 'direct', 'claim': 'n%d = lam^%d * n%d (%s)' % (b, d, a, name), 'answer': 'unsat', 'relative_tolerance': tolerance})
        return self.results()

    def direct_ackermann(self, timeout=60000):
        """direct proof of each output relation over the full cones with the uninterpreted function applications
        replaced by variables (Ackermann style): applications of one function whose arguments are PROVED equal
        (z3, in topological order) share a variable; the remaining query is pure QF_NRA (nlsat applies)."""
        nodes, dag = self.nodes, self.dag
        res_ok = {}
        gvar = {}      # node -> z3 var of its application group
        groups = {}    # (fname, sig) -> [(argnode, var)]
        cache = {}
        ax = []
        alg_added = []

        def TT(x):
            if x in cache: return cache[x]
            n = nodes[x]
            if dag.cval[x] is not None: e = self.rat(dag.cval[x])
            elif n[0] == 'alg':
                S = z3.Real('sqrt2'); e = n[1] + n[2] * S
                if not alg_added:
                    ax.extend([S * S == 2, S > 0]); alg_added.append(1)
            elif n[0] == 'var': e = self.lam if n[1] == LAMVAR else self.rv(x)
            elif n[0] in ('add', 'sub', 'mul', 'div'):
                a, b = TT(n[1]), TT(n[2])
                e = {'add': a + b, 'sub': a - b, 'mul': a * b, 'div': a / b}[n[0]]
            elif n[0] == 'neg': e = -TT(n[1])
            elif n[0] == 'powi':
                a = TT(n[1]); k = abs(n[2]); e = z3.RealVal(1)
                for _ in range(k): e = e * a
                if n[2] < 0: e = 1 / e
            else:
                e = gvar[x]
            cache[x] = e
            return e

        def mk_solvers():
            return [z3.Then('simplify', 'solve-eqs', 'qfnra-nlsat').solver(), z3.Solver()]

        def prove_eq(ea, eb, to):
            for s in mk_solvers():
                s.set('timeout', to)
                s.add(self.lam > 0)
                for v in self.repvar.values(): s.add(v > 0)
                for f in ax: s.add(f)
                s.add(ea != eb)
                self.stats['rel_queries'] += 1
                try:
                    r = self.check(s)
                except z3.Z3Exception:
                    continue
                if r == z3.unsat:
                    self.stats['rel_unsat'] += 1
                    return True
                if r == z3.sat:
                    return False
            return False

        live = set()
        stack = [x for a, b, d, nm, wa, wb in dag.outs for x in (a, b)]
        while stack:
            x = stack.pop()
            if x in live: continue
            live.add(x); stack.extend(dag.children(x))
        for i in sorted(live):
            n = nodes[i]
            self.canon.setdefault(i, (i, 0))
            if n[0] not in ('un', 'powf') or dag.cval[i] is not None: continue
            fname = n[2] if n[0] == 'un' else 'powf_%r' % n[2]
            arg = n[1]
            key = (fname, sig(self.val[arg]))
            ea = TT(arg)
            var = None
            for (arg2, v2) in groups.get(key, []):
                if arg2 == arg or prove_eq(ea, TT(arg2), 5000):
                    var = v2; break
            if var is None:
                var = z3.Real('f_%s_%d' % (re.sub(r'\W', '_', fname), i))
                groups.setdefault(key, []).append((arg, var))
                if fname == 'exp': ax.append(var > 0)
                if fname in ('sinh', 'cosh', 'tanh'):
                    # relate the hyperbolic functions of the same (proved equal) argument
                    trio = {}
                    for f2 in ('sinh', 'cosh', 'tanh'):
                        for (arg3, v3) in groups.get((f2, key[1]), []):
                            if arg3 == arg or prove_eq(ea, TT(arg3), 5000): trio[f2] = v3
                    trio[fname] = var
                    if 'sinh' in trio and 'cosh' in trio: ax.append(trio['cosh'] * trio['cosh'] - trio['sinh'] * trio['sinh'] == 1)
                    if 'cosh' in trio: ax.append(trio['cosh'] >= 1)
                    if all(k in trio for k in ('sinh', 'cosh', 'tanh')): ax.append(trio['tanh'] * trio['cosh'] == trio['sinh'])
                    if 'tanh' in trio and 'cosh' in trio and 'sinh' not in trio:
                        pass
                if fname == 'sqrt': ax.extend([var >= 0, var * var == ea])
            gvar[i] = var
        # definedness domain: the claim is made where both executions are defined (SMT-LIB division is total,
        # x/0 would be an unconstrained value): every denominator occurring in the cones is non-zero
        for i in sorted(live):
            n = nodes[i]
            if dag.cval[i] is not None: continue
            if n[0] == 'div' and dag.cval[n[2]] is None: ax.append(TT(n[2]) != 0)
            elif n[0] == 'powi' and n[2] < 0 and dag.cval[n[1]] is None: ax.append(TT(n[1]) != 0)
        for a, b, d, name, wa, wb in dag.outs:
            if a == b and d == 0: continue
            if prove_eq(TT(b), TT(a) * self.lampow(d), timeout):
                self.canon[b] = (a, d)
                self.samples.append({'kind': 'direct (UF applications replaced by variables after proving argument equality)',
                                     'claim': 'n%d = lam^%d * n%d (%s)' % (b, d, a, name), 'answer': 'unsat', 'uf_groups': sum(len(v) for v in groups.values())})
        return self.results()

    def prove_at(self, v, u, d, depth, timeout):
        s = z3.Solver(); s.set('timeout', timeout)
        s.add(self.lam > 0)
        T = self.build([v, u], depth)
        ev = T(v); eu = T(u)
        for f in T.facts(): s.add(f)
        s.add(ev != eu * self.lampow(d))
        self.stats['rel_queries'] += 1
        if self.check(s) == z3.unsat:
            self.stats['rel_unsat'] += 1
            return True
        return False

    def results(self):
        res = []
        for a, b, d, name, wa, wb in self.dag.outs:
            ra, da = self.canon.get(a, (a, 0)); rb, db = self.canon.get(b, (b, 0))
            proved = (ra == rb and db - da == d)
            zero = self.dag.cval[ra] is not None and self.dag.cval[ra] == 0 and self.dag.cval[rb] is not None and self.dag.cval[rb] == 0
            if zero:
                proved = True  # both sides are proved equal to the constant 0: 0 = lam^d * 0
            other = None
            if not proved and ra == rb:
                other = db - da  # a different relation b = lam^other * a was proved
            # numeric agreement at the evaluation points (hint, used to direct the native replay)
            num_ok = True
            dev = 0.0
            for k in range(self.K):
                va, vb = self.val[a][k], self.val[b][k]
                lam = self.pts[k].get(LAMVAR, 1.0)
                if not (math.isfinite(va) and math.isfinite(vb)):
                    num_ok = False; dev = float('inf'); continue
                want = va * lam ** d
                scale = max(abs(want), abs(vb), 1e-300)
                dd = abs(vb - want) / scale
                dev = max(dev, dd)
                if dd > 1e-9: num_ok = False
            res.append({'name': name, 'a': a, 'b': b, 'd': d, 'proved': proved, 'identical_nodes': a == b and d == 0,
                        'proved_other_degree': other, 'both_zero': zero, 'numeric_agree': num_ok, 'max_rel_dev': dev,
                        'witness_a': wa, 'witness_b': wb})
        return res


def default_ranges(dag):
    """evaluation-point ranges around the trace witness: same order of magnitude, so that the
    points stay on physically sensible ground (hints only)"""
    r = {}
    for v, w in dag.varwit.items():
        if v == LAMVAR: r[v] = (0.3, 3.0)
        elif w == 0.0: r[v] = (0.0, 0.0)
        else: r[v] = (0.8 * w, 1.25 * w)
    return r


if __name__ == '__main__':
    import argparse
    ap = argparse.ArgumentParser()
    ap.add_argument('dag')
    ap.add_argument('--seed', type=int, default=1)
    ap.add_argument('--eps0', action='store_true')
    ap.add_argument('--fixed', default='')
    a = ap.parse_args()
    dag = Dag(a.dag, eps_to_zero=a.eps0)
    fixed = {int(k): float(v) for k, v in (kv.split('=') for kv in a.fixed.split(',') if kv)}
    sw = Sweeper(dag, default_ranges(dag), fixed=fixed, seed=a.seed)
    t0 = time.time()
    res = sw.run()
    print(json.dumps({'results': res, 'stats': sw.stats, 'wall_s': time.time() - t0}, indent=1))
