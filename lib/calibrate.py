#!/usr/bin/env python3-vt
"""Calibration (run by hand on the pinned tree, never by a check): run the E-S job catalogues and record in
scope/es_scope.json the obligations z3 cannot discharge although the relation holds natively (outside_reach).
usage: calibrate.py <tier> <prop> [<prop> ...]"""
import sys, json, os, time
sys.path.insert(0, os.path.dirname(os.path.abspath(__file__)))
import es
from common import *

tier = sys.argv[1]
scope_p = os.path.join(VERIF, 'scope', 'es_scope.json')
scope = json.load(open(scope_p)) if os.path.exists(scope_p) else {'outside_reach': {}, 'calibrated': {}}
es.build_symtrace()
for prop in sys.argv[2:]:
    jobs = getattr(es, 'jobs_' + prop)(tier, 1)
    t0 = time.time()
    res = es.run_jobs(jobs)
    n = ok = 0
    # forget earlier entries of the jobs that were re-run
    names = set(r['name'] for r in res)
    # entries of earlier calibration runs are kept (union): z3 timeouts make the discharged set vary slightly from run to run
    for r in res:
        if r['status'] != 'ok':
            print('JOB FAILED', r['name'], r.get('error', '')[-400:]); continue
        for x in r['rels']:
            n += 1
            if x['proved']:
                ok += 1; continue
            w = x.get('native_worst')
            oid = '%s::%s' % (r['name'], x['name'])
            if w is not None and w['dev'] > r['opts'].get('tol', 1e-9):
                print('NATIVE DEVIATION (not put in scope):', oid, w)
                continue
            why = 'z3 does not discharge the output relation within cone depth/timeouts'
            if r['trace'].get('re_calls', 0) > 0 and not x['numeric_agree']:
                why = 'trace concretises state-dependent data through .re() (%d calls): DAG is witness dependent' % r['trace']['re_calls']
            scope['outside_reach'][oid] = {'reason': why, 'tier': tier, 're_calls': r['trace'].get('re_calls', 0), 'native_max_dev': w['dev'] if w else None}
            print('outside_reach:', oid, why)
    scope.setdefault('calibrated', {})['%s/%s' % (prop, tier)] = {'obligations': n, 'discharged': ok, 'wall_s': round(time.time() - t0)}
    print(prop, tier, 'obligations', n, 'discharged', ok, 'wall', round(time.time() - t0), flush=True)
    os.makedirs(os.path.dirname(scope_p), exist_ok=True)
    json.dump(scope, open(scope_p, 'w'), indent=1, sort_keys=True)
os.makedirs(os.path.dirname(scope_p), exist_ok=True)
json.dump(scope, open(scope_p, 'w'), indent=1, sort_keys=True)
