"""E-S driver: build /verif/symtrace against the current /repo tree, trace jobs, sweep with z3,
replay disagreements natively, write evidence."""
import json, os, math, time, hashlib, random, multiprocessing, traceback
from common import *

SYMTRACE_DIR = os.path.join(VERIF, 'symtrace')
TARGET = os.path.join(WORK, 'symtrace-target')
BIN = os.path.join(TARGET, 'release', 'symtrace')
JOBDIR = os.path.join(WORK, 'es')


def build_symtrace():
    """(re)build the tracer; path dependency on /repo => compiled from the current working tree"""
    os.makedirs(WORK, exist_ok=True)
    sh('cp %s/Cargo.lock %s/Cargo.lock' % (REPO, SYMTRACE_DIR), check=True)
    t0 = time.time()
    p = sh('cargo build --release --target-dir %s' % TARGET, cwd=SYMTRACE_DIR, timeout=3000)
    if p.returncode != 0:
        raise RuntimeError('symtrace build failed:\n' + p.stderr[-4000:])
    return time.time() - t0


def jid(job):
    return hashlib.sha1(json.dumps(job, sort_keys=True).encode()).hexdigest()[:12]


def trace(job):
    os.makedirs(JOBDIR, exist_ok=True)
    j = dict(job)
    h = jid(job)
    j['mode'] = 'sym'
    j['out'] = os.path.join(JOBDIR, h + '.dag')
    jp = os.path.join(JOBDIR, h + '.json')
    json.dump(j, open(jp, 'w'))
    p = sh([BIN, jp], timeout=600)
    if p.returncode != 0:
        return None, 'trace failed: ' + (p.stderr.strip().splitlines() or ['?'])[-1][:300] + ' | ' + p.stderr[-600:].replace('\n', ' ')
    return j['out'], json.loads(p.stdout.strip().splitlines()[-1])


def native(job, x, x2=None):
    """run exactly the same job natively on f64 (compiled library, D = f64)"""
    os.makedirs(JOBDIR, exist_ok=True)
    j = dict(job)
    j['mode'] = 'f64'
    j['x'] = list(x)
    if x2 is not None:
        j['x2'] = list(x2)
    jp = os.path.join(JOBDIR, jid(j) + '.f64.json')
    json.dump(j, open(jp, 'w'))
    p = sh([BIN, jp], timeout=600)
    if p.returncode != 0:
        return None
    return json.loads(p.stdout.strip().splitlines()[-1])


def _fin(x):
    return isinstance(x, (int, float)) and math.isfinite(x)


def es_worker(args):
    """one job: trace + sweep (+ native replay of numeric disagreements). Runs in a worker process."""
    name, job, opts = args
    t0 = time.time()
    out = {'name': name, 'job': job, 'opts': opts, 'status': 'ok', 'rels': [], 'stats': {}, 'trace': {}, 'replays': []}
    try:
        import sweep
        dagp, info = trace(job)
        if dagp is None:
            out['status'] = 'trace_failed'; out['error'] = info
            return out
        out['trace'] = info
        dag = sweep.Dag(dagp, eps_to_zero=opts.get('eps0', False), merge_ulps=opts.get('merge_ulps', 0), algebraic_sqrt2=opts.get('sqrt2', False))
        out['trace']['merged_constants'] = dag.merged_constants + getattr(dag, 'snapped_constants', 0)
        out['trace']['recall_sites'] = len(set(dag.recalls))
        out['trace']['nonfinite_consts'] = len(dag.nonfinite_consts)
        fixed = {int(k): v for k, v in opts.get('fixed', {}).items()}
        ranges = sweep.default_ranges(dag)
        for k, v in opts.get('ranges', {}).items():
            ranges[int(k)] = tuple(v)
        sw = sweep.Sweeper(dag, ranges, fixed=fixed, seed=opts.get('seed', 1), K=opts.get('K', 4),
                           maxdepth=opts.get('maxdepth', 5), qtimeout=opts.get('qtimeout', 3000),
                           budget_s=opts.get('budget_s', 1e9),
                           degrees=range(-6, 7) if opts.get('scale', True) else [0])
        if opts.get('native_only'):
            # nothing of this job is within the prover's reach (scope file): only the native comparison is made
            for i in range(sw.N):
                sw.canon[i] = (i, 0)
            rels = sw.results()
        elif opts.get('direct') == 'ackermann':
            rels = sw.direct_ackermann(timeout=opts.get('direct_timeout_ms', 60000))
        else:
            rels = sw.direct() if opts.get('direct') else sw.run()
        out['stats'] = sw.stats
        out['samples'] = sw.samples
        out['meta'] = dag.meta
        os.remove(dagp)
        # native replay of every relation that is not proved: at the trace witness and at the evaluation points
        fd_cache = {}
        for r in rels:
            if r['proved']:
                continue
            pts = []
            nv = max(dag.varwit) + 1
            pts.append([dag.varwit[i] for i in range(nv)])
            for k in range(sw.K):
                pts.append([sw.pts[k].get(i, dag.varwit[i]) for i in range(nv)])
            worst = None
            if job['job'] == 'twowit':
                # the two traces differ (state-dependent data went through .re()): is a reported derivative wrong?
                # native confirmation = the property's own formulation at this one input: analytic dual part vs
                # central finite difference of the library's own value, per direction
                x = pts[0]
                ncomp = len(x) - 3
                comps = ['N%d' % i for i in range(ncomp)]
                dirs = [([sd], 1e-6, 1e-5) for sd in ['T', 'V'] + comps]
                # second order (hyper-dual part vs difference of the first-order dual part) and third order (Dual3 vs
                # difference of the Dual2 part): a value re-injected through .re() followed by too few implicit-
                # differentiation steps is right to first order and wrong beyond
                dirs += [(p, 1e-5, 1e-6) for p in [['T', 'T'], ['V', 'V'], ['T', 'V'], ['V', 'T']] + [[c, c] for c in comps] + [['T', c] for c in comps[:1]] + [['V', c] for c in comps[:1]]
                         + ([[comps[0], comps[1]]] if ncomp > 1 else [])]
                dirs += [(p, 1e-4, 1e-5) for p in [['T', 'T', 'T'], ['V', 'V', 'V']]]
                for sd, hstep, tol_fd in dirs:
                    fj = {'job': 'fd', 'model': job['model'], 'seed': sd, 'h': hstep}
                    ck = json.dumps([fj, x], sort_keys=True)
                    if ck not in fd_cache:
                        fd_cache[ck] = native(fj, x)     # one native run serves every contribution of the job
                    nat = fd_cache[ck]
                    if nat is None:
                        continue
                    scale = max([abs(nr['b']) for nr in nat['rels'] if _fin(nr['b'])] + [1e-300])
                    for nr in nat['rels']:
                        if nr['name'].split(':', 1)[1].replace(' ', '_') != r['name']:
                            continue
                        a, b = nr['a'], nr['b']
                        if not (_fin(a) and _fin(b)):
                            continue
                        dev = abs(a - b) / max(abs(a), abs(b), 1e-300)
                        if abs(a - b) < 1e-2 * tol_fd * scale:
                            dev = 0.0
                        if dev > tol_fd and (worst is None or dev > worst['dev']):
                            worst = {'x': x, 'a': a, 'b': b, 'dev': dev, 'direction': ''.join(sd),
                                     'meaning': 'a = central finite difference of the next-lower-order dual part of the contribution, b = derivative reported through dual numbers'}
                r['native_worst'] = worst
                continue
            if job['job'] == 'virial':
                # zero-density value (a) vs Richardson-extrapolated finite-density values of the same dual part (b):
                # b(rho) = B + O(rho); estimate = 2 b(rho/2) - b(rho)
                x0 = pts[0]
                est = {}
                for rho in (2e-6, 1e-6):
                    xx = list(x0); xx[1] = rho
                    nat = native(job, xx)
                    if nat is None:
                        continue
                    for nr in nat['rels']:
                        if nr['name'].replace(' ', '_') == r['name']:
                            est[rho] = (nr['a'], nr['b'])
                if len(est) == 2:
                    a = est[1e-6][0]
                    lim = 2 * est[1e-6][1] - est[2e-6][1] if (_fin(est[1e-6][1]) and _fin(est[2e-6][1])) else float('nan')
                    if not _fin(a):
                        worst = {'x': x0, 'a': a, 'b': lim, 'dev': float('inf'), 'meaning': 'a = value at exactly zero density (as second_virial_coefficient computes it) is not finite'}
                    elif _fin(lim):
                        scale = max(abs(a), abs(lim), 1e-300)
                        dev = abs(a - lim) / scale
                        worst = {'x': x0, 'a': a, 'b': lim, 'dev': dev if dev > 1e-4 else 0.0,
                                 'meaning': 'a = value at exactly zero density, b = Richardson limit of the finite-density code path (rho = 2e-6, 1e-6 A^-3)'}
                r['native_worst'] = worst
                continue
            for x in pts:
                nat = native(job, x)
                if nat is None:
                    continue
                for nr in nat['rels']:
                    if nr['name'].replace(' ', '_') != r['name']:
                        continue
                    a, b = nr['a'], nr['b']
                    if not (_fin(a) and _fin(b)):
                        dev = float('inf') if (_fin(a) != _fin(b)) else 0.0
                    else:
                        want = a * x[2] ** r['d']
                        dev = abs(b - want) / max(abs(want), abs(b), 1e-300)
                    if worst is None or dev > worst['dev']:
                        worst = {'x': x, 'a': a, 'b': b, 'dev': dev}
            r['native_worst'] = worst
        out['rels'] = rels
    except Exception as e:
        out['status'] = 'error'
        out['error'] = traceback.format_exc()[-1500:]
    out['wall_s'] = time.time() - t0
    return out


def _job_main(args, path):
    r = es_worker(args)
    json.dump(r, open(path, 'w'))


def run_jobs(jobs, procs=16):
    """jobs: list of (name, job, opts); one OS process per job (killed at its hard wall-clock limit: a z3 call
    that ignores its own timeout cannot be interrupted from Python)"""
    os.makedirs(JOBDIR, exist_ok=True)
    verbose = os.environ.get('VERIF_VERBOSE')
    pending = list(enumerate(jobs))
    running = {}
    out = {}
    while pending or running:
        while pending and len(running) < procs:
            i, j = pending.pop(0)
            path = os.path.join(JOBDIR, 'res-%d-%d.json' % (os.getpid(), i))
            if os.path.exists(path):
                os.remove(path)
            pr = multiprocessing.Process(target=_job_main, args=(j, path))
            pr.start()
            # soft (thorough-only) jobs: tighter wall-clock limit and no retry
            limit = j[2].get('hard_timeout_s', (1.5 * j[2].get('budget_s', 600) + 120) if j[2].get('soft') else (3 * j[2].get('budget_s', 600) + 300))
            running[i] = (pr, path, time.time(), limit, j)
        time.sleep(0.2)
        for i in list(running):
            pr, path, t0, limit, j = running[i]
            if not pr.is_alive():
                pr.join()
                if os.path.exists(path):
                    r = json.load(open(path)); os.remove(path)
                else:
                    r = {'name': j[0], 'job': j[1], 'opts': j[2], 'status': 'error', 'error': 'worker died (exit code %s)' % pr.exitcode, 'rels': [], 'stats': {}, 'trace': {}}
            elif time.time() - t0 > limit:
                pr.kill(); pr.join()
                r = {'name': j[0], 'job': j[1], 'opts': j[2], 'status': 'timeout', 'error': 'killed at the hard wall-clock limit of %d s' % limit, 'rels': [], 'stats': {}, 'trace': {}, 'wall_s': time.time() - t0}
            else:
                continue
            del running[i]
            out[i] = r
            if verbose:
                print('[es] %s %s wall=%.1fs solver=%.1fs %s' % (r['name'], r['status'], r.get('wall_s', 0), r.get('stats', {}).get('solver_s', 0),
                      [(x['name'], x['proved']) for x in r.get('rels', [])]), flush=True)
    res = [out[i] for i in range(len(jobs))]
    # one retry (different evaluation-point seed) for jobs that were killed at their wall-clock limit
    redo = [i for i, r in enumerate(res) if r['status'] == 'timeout' and not jobs[i][2].get('_retried') and not jobs[i][2].get('soft')]
    if redo:
        again = []
        for i in redo:
            n, j, o = jobs[i]
            o2 = dict(o); o2['_retried'] = True; o2['seed'] = o.get('seed', 1) + 1
            again.append((n, j, o2))
        for i, r in zip(redo, run_jobs(again, procs)):
            res[i] = r
    return res


TRUSTED = ['rustc (monomorphisation of the real generic feos code at D = Sym / Dual<Sym> / HyperDual<Sym>)',
           'num-dual generic dual-number arithmetic', '/verif/symtrace Sym tracer (operator overloading, hash-consing, x*0, x*1, x+0, x/1 simplifications)',
           'z3 ' + 'python API (QF_NRA + UF)', 'exact rational constant folding in /verif/lib/sweep.py']

ES_ASSUMPTIONS = [
    'terms are over the reals: f64 constants are their exact rational values, rounding error of the evaluation is outside the claim',
    'exp/ln/sqrt/cbrt/powf/... are uninterpreted functions with ground axiom instances (sign, monotone bounds, sqrt(x)^2=x)',
    'concolic control: branches taken on .re() values are those of the trace witness; the claim is for all inputs on that path',
    'domain: T, V, N_i, lam > 0; denominators of the reference execution are non-zero (definedness domain)',
    'claims are per parameter set (shipped records chosen by VERIF_SEED), not for all parameters',
]


def decide(outcome, prop, results, scope=None, tol0=1e-9):
    """turn job results into obligations / violations / inconclusives; returns coverage dict pieces"""
    obligations = discharged = 0
    identical = 0
    solver_s = 0.0
    queries = 0
    samples = []
    per_job = []
    undischarged = []
    for res in results:
        if res['status'] != 'ok':
            if res['opts'].get('soft'):
                # thorough-only job that did not finish within the limits of this run: recorded, nothing claimed
                per_job.append({'job': res['name'], 'status': '%s (thorough-only job, not claimed)' % res['status'], 'relations': {}})
                continue
            outcome.inconclusive.append('%s: %s: %s' % (res['name'], res['status'], res.get('error', '')[-400:]))
            continue
        solver_s += res['stats'].get('solver_s', 0.0)
        queries += res['stats'].get('rel_queries', 0) + res['stats'].get('sign_queries', 0)
        jr = {'job': res['name'], 'nodes': res['trace'].get('nodes'), 'ops': res['trace'].get('ops'),
              're_calls': res['trace'].get('re_calls'), 'recall_sites': res['trace'].get('recall_sites'),
              'queries': res['stats'].get('rel_queries', 0) + res['stats'].get('sign_queries', 0),
              'unsat': res['stats'].get('rel_unsat', 0) + res['stats'].get('sign_unsat', 0),
              'solver_s': round(res['stats'].get('solver_s', 0.0), 2), 'wall_s': round(res.get('wall_s', 0), 1), 'relations': {}}
        tol = res['opts'].get('tol', tol0)
        for r in res['rels']:
            oid = '%s::%s' % (res['name'], r['name'])
            if scope is not None and oid in scope.get('outside_reach', {}):
                jr['relations'][r['name']] = 'outside_reach'
                # still report a natively reproduced deviation: it does not depend on the prover
                if not r['proved'] and r.get('native_worst') and r['native_worst']['dev'] > tol:
                    pass   # reported below as a violation: reproduced natively, independent of the prover
                else:
                    continue
            obligations += 1
            key_ = {'engine': 'E-S', 'job': res['name'], 'relation': r['name']}
            if not r['proved'] and finding_for(prop, key_) is not None and r.get('native_worst') and r['native_worst']['dev'] > tol:
                obligations -= 1   # a recorded finding is reported (KNOWN-FINDING) but is not an obligation of the claim
            if r['proved']:
                discharged += 1
                if r['identical_nodes']:
                    identical += 1
                jr['relations'][r['name']] = 'proved' + (' (hash-identical DAG nodes)' if r['identical_nodes'] else '')
                continue
            w = r.get('native_worst')
            if w is not None and w['dev'] > tol:
                key = {'engine': 'E-S', 'job': res['name'], 'relation': r['name']}
                what = ('%s: relation "%s" (b = lam^%d * a) of job %s fails natively: a=%r b=%r rel.dev=%.3g at x=%s'
                        % (prop, r['name'], r['d'], res['name'], w['a'], w['b'], w['dev'], w['x']))
                if r.get('proved_other_degree') is not None:
                    what += ' ; solver proved b = lam^%d * a instead' % r['proved_other_degree']
                outcome.violation(key, what, {'job': res['job'], 'x': w['x'], 'relation': r['name'], 'expected_degree': r['d'],
                                              'native': w, 'cmd': '%s <job.json with mode=f64, x=...>' % BIN})
                jr['relations'][r['name']] = 'REFUTED (native replay)'
            elif res['opts'].get('soft'):
                # seeded extra systems of the thorough tier: no calibration exists for them; an undischarged relation
                # that agrees natively is reported but neither claimed nor treated as inconclusive
                obligations -= 1
                jr['relations'][r['name']] = 'undischarged (seeded system, not claimed)'
            else:
                jr['relations'][r['name']] = 'undischarged'
                undischarged.append(oid)
        if len(samples) < 8:
            for s in res.get('samples', [])[:2]:
                s = dict(s); s['job'] = res['name']; samples.append(s)
        per_job.append(jr)
    for oid in undischarged:
        outcome.inconclusive.append('obligation %s not discharged by z3 and no native deviation found' % oid)
    return {'obligations': obligations, 'discharged': discharged, 'hash_identical': identical, 'solver_s': round(solver_s, 2),
            'solver_queries': queries, 'jobs': per_job, 'samples': samples}


# ---------------------------------------------------------------- catalogue of systems

def src(*pairs):
    return [[f, list(s)] for f, s in pairs]


def state(n, T=300.0, V=1000.0, seed=1, j=0):
    """trace witness: x = [T, V, lam, N_0..]"""
    rnd = random.Random(seed * 1000 + j)
    return [T * rnd.uniform(0.9, 1.1), V * rnd.uniform(0.9, 1.1), 1.7] + [rnd.uniform(1.0, 3.0) for _ in range(n)]


def systems(tier, seed):
    """(name, model spec, ncomp, witness T, witness V) for every shipped residual model"""
    S = []
    P = 'pcsaft/'
    S.append(('pr', {'kind': 'pr', 'syn': [[369.8, 41.9e5, 0.15, 44.0], [425.2, 37.9e5, 0.2, 58.0]], 'bin': 0.02}, 2, 300.0, 1000.0))
    S.append(('pcsaft', {'kind': 'pcsaft', 'src': src((P + 'gross2001.json', ['propane', 'butane']))}, 2, 300.0, 1000.0))
    S.append(('pcsaft_kij', {'kind': 'pcsaft', 'src': src((P + 'gross2001.json', ['methane', 'hexane'])), 'bin': {'k_ij': 0.03}}, 2, 300.0, 1000.0))
    S.append(('pcsaft_assoc', {'kind': 'pcsaft', 'src': src((P + 'gross2001.json', ['propane']), (P + 'gross2002.json', ['methanol']))}, 2, 320.0, 1000.0))
    S.append(('pcsaft_polar', {'kind': 'pcsaft', 'src': src((P + 'gross2006.json', ['acetone']), (P + 'gross2005_fit.json', ['carbon dioxide']))}, 2, 300.0, 1000.0))
    S.append(('epcsaft', {'kind': 'epcsaft', 'src': src((P + 'gross2001.json', ['propane', 'butane']))}, 2, 300.0, 1000.0))
    S.append(('epcsaft_ionic', {'kind': 'epcsaft', 'src': src(('epcsaft/held2014_w_permittivity_added.json', ['water', 'sodium ion', 'chloride ion'])), 'binary': 'epcsaft/held2014_binary.json'}, 3, 298.15, 30000.0))
    S.append(('gcpcsaft', {'kind': 'gcpcsaft', 'src': src((P + 'gc_substances.json', ['propane', 'butane'])), 'segments': P + 'sauer2014_hetero.json'}, 2, 300.0, 1000.0))
    S.append(('pets', {'kind': 'pets', 'syn': [[3.4, 120.0, 39.9], [3.6, 165.0, 83.8]], 'bin': {'k_ij': 0.01}}, 2, 150.0, 1000.0))
    for pert in ('wca', 'bh', 'b3'):
        S.append(('uv_' + pert, {'kind': 'uv', 'pert': pert, 'syn': [[12.0, 6.0, 3.4, 120.0], [14.0, 6.0, 3.7, 160.0]]}, 2, 150.0, 1000.0))
    S.append(('saftvrmie', {'kind': 'saftvrmie', 'src': src(('saftvrmie/lafitte2013.json', ['methane', 'ethane']))}, 2, 200.0, 1000.0))
    S.append(('saftvrqmie', {'kind': 'saftvrqmie', 'src': src(('saftvrqmie/hammer2023.json', ['hydrogen', 'neon']))}, 2, 50.0, 1000.0))
    # functionals: bulk path
    for v in ('WhiteBear', 'KierlikRosinberg', 'AntiSymWhiteBear'):
        S.append(('pcsaft_fun_' + v, {'kind': 'pcsaft_fun', 'fmt': v, 'src': src((P + 'gross2001.json', ['propane', 'butane']))}, 2, 300.0, 1000.0))
    S.append(('gcpcsaft_fun', {'kind': 'gcpcsaft_fun', 'src': src((P + 'gc_substances.json', ['propane', 'butane'])), 'segments': P + 'sauer2014_hetero.json'}, 2, 300.0, 1000.0))
    S.append(('pets_fun', {'kind': 'pets_fun', 'syn': [[3.4, 120.0, 39.9], [3.6, 165.0, 83.8]]}, 2, 150.0, 1000.0))
    S.append(('saftvrqmie_fun', {'kind': 'saftvrqmie_fun', 'src': src(('saftvrqmie/hammer2023.json', ['hydrogen', 'neon']))}, 2, 50.0, 1000.0))
    S.append(('fmt_fun', {'kind': 'fmt_fun', 'syn': [[3.4], [3.9]]}, 2, 300.0, 1000.0))
    if tier == 'thorough':
        S += seeded_systems(seed)
    return S


def seeded_systems(seed, n=6):
    """thorough tier: extra binaries drawn by VERIF_SEED from the shipped collections (names end in '~' so that the
    catalogues can mark their jobs soft: there is no calibration for a seed-dependent choice)"""
    rnd = random.Random(seed * 7919 + 13)
    out = []
    try:
        recs = json.load(open(os.path.join(REPO, 'parameters/pcsaft/esper2023.json')))
        names = [r['identifier']['name'] for r in recs if r.get('identifier', {}).get('name')]
        for k in range(n):
            a, b = rnd.sample(names, 2)
            out.append(('pcsaft_esper_%d~' % k, {'kind': 'pcsaft', 'src': src((P + 'esper2023.json', [a, b])), 'bin': {'k_ij': round(rnd.uniform(-0.05, 0.05), 3)}}, 2, rnd.uniform(280.0, 450.0), 1500.0))
        g = json.load(open(os.path.join(REPO, 'parameters/pcsaft/gross2001.json')))
        gn = [r['identifier']['name'] for r in g]
        for k in range(2):
            a, b, c = rnd.sample(gn, 3)
            out.append(('pcsaft_gross3_%d~' % k, {'kind': 'pcsaft', 'src': src((P + 'gross2001.json', [a, b, c]))}, 3, rnd.uniform(280.0, 450.0), 2000.0))
        v = json.load(open(os.path.join(REPO, 'parameters/saftvrmie/lafitte2013.json')))
        vn = [r['identifier']['name'] for r in v if 'rc_ab' not in r['model_record'] and r['model_record'].get('na') is None]
        a, b = rnd.sample(vn, 2)
        out.append(('saftvrmie_seed~', {'kind': 'saftvrmie', 'src': src(('saftvrmie/lafitte2013.json', [a, b]))}, 2, rnd.uniform(200.0, 400.0), 1500.0))
    except Exception as e:
        print('seeded systems unavailable:', e)
    return out


# ---------------------------------------------------------------- job catalogues per property

P = 'pcsaft/'


def ternaries(tier, seed):
    """(name, spec, witness T, V) three-component systems built from shipped/synthetic records"""
    S = [
        # pairwise different binary parameters (binm[i][j], i < j), so that a mis-sliced binary matrix is visible
        ('pcsaft3', {'kind': 'pcsaft', 'src': src((P + 'gross2001.json', ['propane', 'butane']), (P + 'gross2002.json', ['methanol'])),
                     'binm': [[None, {'k_ij': 0.02}, {'k_ij': -0.03}], [None, None, {'k_ij': 0.05}], [None, None, None]]}, 300.0, 1000.0),
        ('pr3', {'kind': 'pr', 'syn': [[369.8, 41.9e5, 0.15, 44.0], [425.2, 37.9e5, 0.2, 58.0], [190.6, 46.0e5, 0.011, 16.0]],
                 'binm': [[None, 0.02, -0.01], [None, None, 0.04], [None, None, None]]}, 300.0, 1000.0),
        ('pets3', {'kind': 'pets', 'syn': [[3.4, 120.0, 39.9], [3.6, 165.0, 83.8], [3.0, 90.0, 20.0]],
                   'binm': [[None, {'k_ij': 0.01}, {'k_ij': 0.03}], [None, None, {'k_ij': -0.02}], [None, None, None]]}, 150.0, 1000.0),
        ('gcpcsaft3', {'kind': 'gcpcsaft', 'src': src((P + 'gc_substances.json', ['propane', 'butane', 'pentane'])), 'segments': P + 'sauer2014_hetero.json'}, 300.0, 1000.0),
        # binary *segment* records between groups of different components (>C=O ... OH): ethanol before acetone, so that the
        # quick permutation [2,0,1] reverses their relative order
        ('gcpcsaft3_kij', {'kind': 'gcpcsaft', 'src': src((P + 'gc_substances.json', ['ethanol', 'pentane', 'acetone'])), 'segments': P + 'rehner2023_hetero.json',
                           'binary': P + 'rehner2023_hetero_binary.json'}, 320.0, 1000.0),
        ('pcsaft3_polar', {'kind': 'pcsaft', 'src': src((P + 'gross2006.json', ['acetone']), (P + 'gross2005_fit.json', ['carbon dioxide']), (P + 'gross2001.json', ['propane']))}, 300.0, 1000.0),
        ('pcsaft_2quad', {'kind': 'pcsaft', 'src': src((P + 'gross2005_fit.json', ['carbon dioxide', 'nitrogen']), (P + 'gross2001.json', ['propane']))}, 300.0, 1000.0),
    ]
    if tier == 'thorough':
        S += [
            ('uv3_wca', {'kind': 'uv', 'pert': 'wca', 'syn': [[12.0, 6.0, 3.4, 120.0], [14.0, 6.0, 3.7, 160.0], [11.0, 6.0, 3.1, 100.0]]}, 150.0, 1000.0),
            ('uv3_bh', {'kind': 'uv', 'pert': 'bh', 'syn': [[12.0, 6.0, 3.4, 120.0], [14.0, 6.0, 3.7, 160.0], [11.0, 6.0, 3.1, 100.0]]}, 150.0, 1000.0),
            ('saftvrmie3', {'kind': 'saftvrmie', 'src': src(('saftvrmie/lafitte2013.json', ['methane', 'ethane', 'propane']))}, 200.0, 1000.0),
            ('epcsaft3', {'kind': 'epcsaft', 'src': src((P + 'gross2001.json', ['propane', 'butane', 'pentane']))}, 300.0, 1000.0),
            ('pcsaft_fun3', {'kind': 'pcsaft_fun', 'fmt': 'WhiteBear', 'src': src((P + 'gross2001.json', ['propane', 'butane', 'pentane']))}, 300.0, 1000.0),
        ]
    return S


def jobs_C02(tier, seed):
    jobs = []
    # cross-association (two self-associating components, iterative site-fraction solver) and an asymmetric 3B scheme
    extra = [('pcsaft_xassoc', {'kind': 'pcsaft', 'src': src((P + 'rehner2020.json', ['water_4C', 'methanol']))}, 2, 350.0, 1000.0),
             ('pcsaft_assoc3b', {'kind': 'pcsaft', 'src': src((P + 'gross2001.json', ['hexane']), (P + 'rehner2020.json', ['water_3B']))}, 2, 350.0, 1000.0),
             # one self-associating C-type site (nc = 1; no shipped record has one): closed-form C-C path
             ('pcsaft_csite', {'kind': 'pcsaft', 'src': src(('../../verif/symtrace/params/csite.json', ['acid_one_c_site']), (P + 'gross2001.json', ['heptane']))}, 2, 350.0, 1000.0),
             # SAFT-VR Mie with its own association term (2B methanol + inert)
             ('saftvrmie_assoc', {'kind': 'saftvrmie', 'src': src(('saftvrmie/lafitte2013.json', ['hexane', 'methanol']))}, 2, 350.0, 1000.0)]
    for name, spec, n, T, V in systems(tier, seed) + extra:
        if tier == 'quick' and name == 'saftvrqmie_fun':
            continue   # 6-11 min alone (12 000 nodes): thorough tier; the SAFT-VRQ Mie equation of state stays in quick
        jobs.append(('ext/' + name, {'job': 'ext', 'model': spec, 'x': state(n, T, V, seed)}, {'budget_s': 300 if tier == 'quick' else 1800, 'soft': name.endswith('~')}))
    return jobs


def jobs_C09(tier, seed):
    jobs = []
    perms = [[2, 0, 1]] if tier == 'quick' else [[2, 0, 1], [1, 2, 0], [1, 0, 2], [0, 2, 1], [2, 1, 0]]
    # incl. full-length lists that only reorder (subset must re-slice the binary matrix for them as well)
    subsets = [[0, 1], [2], [1, 2], [2, 0, 1]] if tier == 'quick' else [[0, 1], [0, 2], [1, 2], [0], [1], [2], [2, 0], [1, 0], [2, 0, 1], [0, 2, 1], [1, 0, 2]]
    for name, spec, T, V in ternaries(tier, seed):
        x = state(3, T, V, seed)
        for p in (perms + [[1, 0, 2]] if (name == 'pcsaft_2quad' and [1, 0, 2] not in perms) else perms):
            m2 = dict(spec); m2['idx'] = p
            job = {'job': 'perm', 'model': spec, 'model2': m2, 'x': x}
            if tier == 'thorough' or name in ('pr3', 'pets3'):
                job['dual'] = 'first'
            jobs.append(('perm/%s/%s' % (name, ''.join(map(str, p))), job, {'scale': False, 'merge_ulps': 8, 'budget_s': 300}))
        for keep in subsets:
            m2 = dict(spec); m2['subset'] = keep
            if '_fun' in name and len(keep) == 1:
                # the one-component subset of a functional is the *pure* functional, which splits the same energy into
                # differently named contributions (Pure_FMT+association, Pure_chain, ...): a per-contribution comparison
                # by name is meaningless there (found as 18 false mismatches in the first thorough run)
                continue
            jobs.append(('pad_subset/%s/%s' % (name, ''.join(map(str, keep))), {'job': 'pad', 'model': spec, 'model2': m2, 'keep': sorted(keep) if False else keep, 'x': x},
                         {'scale': False, 'merge_ulps': 8, 'budget_s': 300}))
            m3 = dict(spec); m3['idx'] = keep
            jobs.append(('subset_vs_direct/%s/%s' % (name, ''.join(map(str, keep))), {'job': 'pair', 'match': 'contrib', 'model': m2, 'model2': m3, 'x': x[:3] + [x[3 + k] for k in keep]},
                         {'scale': False, 'merge_ulps': 8, 'budget_s': 300}))
    # splitting: binary systems, each component entered twice in turn
    B = [('pcsaft2', {'kind': 'pcsaft', 'src': src((P + 'gross2001.json', ['propane']), (P + 'gross2002.json', ['methanol'])), 'bin': {'k_ij': 0.02}}, 300.0, 1000.0, [0]),
         ('pr2', {'kind': 'pr', 'syn': [[369.8, 41.9e5, 0.15, 44.0], [425.2, 37.9e5, 0.2, 58.0]], 'bin': 0.02}, 300.0, 1000.0, [0, 1]),
         ('pets2', {'kind': 'pets', 'syn': [[3.4, 120.0, 39.9], [3.6, 165.0, 83.8]], 'bin': {'k_ij': 0.01}}, 150.0, 1000.0, [0, 1])]
    if tier == 'thorough':
        B += [('pcsaft2_polar', {'kind': 'pcsaft', 'src': src((P + 'gross2006.json', ['acetone']), (P + 'gross2005_fit.json', ['carbon dioxide']))}, 300.0, 1000.0, [0, 1]),
              ('gcpcsaft2', {'kind': 'gcpcsaft', 'src': src((P + 'gc_substances.json', ['propane', 'butane'])), 'segments': P + 'sauer2014_hetero.json'}, 300.0, 1000.0, [0, 1]),
              ('uv2_wca', {'kind': 'uv', 'pert': 'wca', 'syn': [[12.0, 6.0, 3.4, 120.0], [14.0, 6.0, 3.7, 160.0]]}, 150.0, 1000.0, [0, 1]),
              ('saftvrmie2', {'kind': 'saftvrmie', 'src': src(('saftvrmie/lafitte2013.json', ['methane', 'ethane']))}, 200.0, 1000.0, [0, 1])]
    for name, spec, T, V, which in B:
        for a in which:
            idx = [0, 0, 1] if a == 0 else [0, 1, 1]
            m2 = dict(spec); m2['idx'] = idx
            jobs.append(('split/%s/%d' % (name, a), {'job': 'split', 'model': spec, 'model2': m2, 'x': state(3, T, V, seed)}, {'scale': False, 'budget_s': 600}))
    return jobs


def jobs_C08(tier, seed):
    jobs = []
    x2 = lambda T, V: state(2, T, V, seed)
    pc = {'kind': 'pcsaft', 'src': src((P + 'gross2001.json', ['propane', 'butane']))}
    # pair 1: functional bulk path vs equation of state
    for v in ('WhiteBear', 'KierlikRosinberg', 'AntiSymWhiteBear'):
        f = {'kind': 'pcsaft_fun', 'fmt': v, 'src': pc['src']}
        jobs.append(('fun_vs_eos/pcsaft/' + v, {'job': 'pair', 'model': pc, 'model2': f, 'x': x2(300.0, 1000.0),
                                                 'groups': [['Hard_Sphere~FMT', [0], [0]], ['Hard_Chain~chain+ideal_chain', [1], [1, 3]], ['Dispersion~Attractive', [2], [2]]]},
                     {'scale': False, 'eps0': True, 'budget_s': 900}))
        jobs.append(('fun_vs_eos/fmt/' + v, {'job': 'pair', 'model': {'kind': 'bmcsl', 'syn': [[3.4], [3.9]]}, 'model2': {'kind': 'fmt_fun', 'fmt': v, 'syn': [[3.4], [3.9]]},
                                              'x': x2(300.0, 1000.0), 'groups': [['BMCSL~FMT', [0], [0]]]}, {'scale': False, 'eps0': True, 'budget_s': 900}))
    q2 = {'kind': 'pcsaft', 'src': src((P + 'gross2005_fit.json', ['carbon dioxide', 'nitrogen']))}
    jobs.append(('fun_vs_eos/pcsaft_2quad', {'job': 'pair', 'model': q2, 'model2': dict(q2, kind='pcsaft_fun', fmt='WhiteBear'), 'x': x2(300.0, 1000.0)}, {'scale': False, 'eps0': True, 'budget_s': 900}))
    pe = {'kind': 'pets', 'syn': [[3.4, 120.0, 39.9], [3.6, 165.0, 83.8]], 'bin': {'k_ij': 0.01}}
    jobs.append(('fun_vs_eos/pets', {'job': 'pair', 'model': pe, 'model2': dict(pe, kind='pets_fun'), 'x': x2(150.0, 1000.0),
                                     'groups': [['Hard_Sphere~FMT', [0], [0]], ['Dispersion~Attractive', [1], [1]]]}, {'scale': False, 'eps0': True, 'budget_s': 900}))
    gc = {'kind': 'gcpcsaft', 'src': src((P + 'gc_substances.json', ['propane', 'butane'])), 'segments': P + 'sauer2014_hetero.json'}
    jobs.append(('fun_vs_eos/gcpcsaft', {'job': 'pair', 'model': gc, 'model2': dict(gc, kind='gcpcsaft_fun'), 'x': x2(300.0, 1000.0),
                                         'groups': [['Hard_Sphere~FMT', [0], [0]], ['Dispersion~Attractive', [2], [2]]]}, {'scale': False, 'eps0': True, 'budget_s': 900}))
    if tier == 'thorough':
        vq = {'kind': 'saftvrqmie', 'src': src(('saftvrqmie/hammer2023.json', ['hydrogen', 'neon']))}
        jobs.append(('fun_vs_eos/saftvrqmie', {'job': 'pair', 'model': vq, 'model2': dict(vq, kind='saftvrqmie_fun'), 'x': x2(50.0, 1000.0)}, {'scale': False, 'eps0': True, 'budget_s': 1800}))
    # pair 2: generic containers vs bare model
    bare = [(n, s, T, V) for n, s, c, T, V in systems(tier, seed) if n in (('pr', 'pcsaft', 'pcsaft_assoc', 'epcsaft', 'gcpcsaft', 'pets', 'uv_wca', 'saftvrmie', 'pcsaft_fun_WhiteBear', 'pets_fun', 'fmt_fun', 'gcpcsaft_fun')
                                                                       if tier == 'quick' else [q[0] for q in systems(tier, seed)])]
    for n, s, T, V in bare:
        for w in ('enum', 'eos'):
            jobs.append(('wrap_%s/%s' % (w, n), {'job': 'pair', 'match': 'contrib', 'model': s, 'model2': dict(s, wrap=w), 'x': x2(T, V)}, {'scale': False, 'budget_s': 600}))
    # pair 3: ePC-SAFT without ions vs PC-SAFT
    # xassoc: two different self-associating components (cross-association strength between unlike sites, iterative site-fraction solver)
    for n, s in (('hc', pc), ('assoc', {'kind': 'pcsaft', 'src': src((P + 'gross2001.json', ['propane']), (P + 'gross2002.json', ['methanol']))}),
                 ('xassoc', {'kind': 'pcsaft', 'src': src((P + 'gross2002.json', ['methanol', '1-octanol'])), 'bin': {'k_ij': 0.015}})):
        s2 = dict(s, kind='epcsaft')
        if 'bin' in s: s2['bin'] = {'k_ij': [s['bin']['k_ij'], 0.0, 0.0, 0.0]}   # ePC-SAFT: polynomial in T, constant term only
        jobs.append(('epcsaft_vs_pcsaft/' + n, {'job': 'pair', 'match': 'contrib', 'model': s, 'model2': s2, 'x': x2(300.0, 1000.0)}, {'scale': False, 'budget_s': 600, 'merge_ulps': 8}))
    # pair 4: SAFT-VRQ Mie, Feynman-Hibbs order 0, vs SAFT-VR Mie for monomers
    # pure monomer (for mixtures SAFT-VRQ Mie adds its non-additive hard-sphere correction by design); the two models
    # integrate the effective diameter with different quadratures: agreement is to ~3e-9, hence the tolerance
    mono = [[1.0, 3.7, 150.0, 12.0, 6.0, 16.0]]
    jobs.append(('vrq_fh0_vs_vrmie', {'job': 'pair', 'model': {'kind': 'saftvrmie', 'syn': mono}, 'model2': {'kind': 'saftvrqmie', 'syn': mono, 'fh': 0}, 'x': state(1, 150.0, 1000.0, seed)},
                 {'scale': False, 'merge_ulps': 8, 'budget_s': 900, 'tol': 1e-6}))
    # pair 5: homosegmented group contribution vs combined record
    hg = {'src': src((P + 'gc_substances.json', ['propane', 'butane'])), 'segments': P + 'sauer2014_homo.json'}
    jobs.append(('homogc_vs_record', {'job': 'pair', 'match': 'contrib', 'model': dict(hg, kind='pcsaft_homogc'), 'model2': dict(hg, kind='pcsaft_homogc_records'), 'x': x2(300.0, 1000.0)},
                 {'scale': False, 'merge_ulps': 8, 'budget_s': 300}))
    # pair 6: Peng-Robinson vs textbook closed form
    prs = {'kind': 'pr', 'syn': [[369.8, 41.9e5, 0.15, 44.0], [425.2, 37.9e5, 0.2, 58.0]], 'bin': 0.02}
    pr1 = {'kind': 'pr', 'syn': [[369.8, 41.9e5, 0.15, 44.0]]}
    jobs.append(('pr_vs_textbook/pure', {'job': 'pr_textbook', 'model': pr1, 'x': state(1, 300.0, 1000.0, seed)}, {'scale': False, 'merge_ulps': 64, 'sqrt2': True, 'direct': 'ackermann'}))
    jobs.append(('pr_vs_textbook/binary_kij', {'job': 'pr_textbook', 'model': prs, 'x': x2(300.0, 1000.0)},
                 {'scale': False, 'merge_ulps': 64, 'sqrt2': True, 'direct': 'ackermann', 'direct_timeout_ms': 20000 if tier == 'quick' else 600000}))
    if tier == 'quick':
        for j in jobs:
            if j[0].startswith('fun_vs_eos') or j[0].startswith('vrq_fh0'):
                j[2]['budget_s'] = 45   # outside the prover's reach (scope file): only the native comparison is made in the quick tier
                j[2]['hard_timeout_s'] = 600
    return jobs


def jobs_C13(tier, seed):
    jobs = []
    # association schemes beyond 2B (asymmetric site counts na != nb take the closed-form path with rhoa != rhob;
    # 4C + 2B cross-association takes the iterative site-fraction solver at zero density)
    extra = [('pcsaft_assoc3b', {'kind': 'pcsaft', 'src': src((P + 'gross2001.json', ['hexane']), (P + 'rehner2020.json', ['water_3B']))}, 2, 350.0, 1000.0),
             ('pcsaft_3b_pure', {'kind': 'pcsaft', 'src': src((P + 'rehner2020.json', ['water_3B']))}, 1, 400.0, 1000.0),
             ('pcsaft_xassoc', {'kind': 'pcsaft', 'src': src((P + 'rehner2020.json', ['water_4C', 'methanol']))}, 2, 350.0, 1000.0),
             ('pcsaft_csite', {'kind': 'pcsaft', 'src': src(('../../verif/symtrace/params/csite.json', ['acid_one_c_site']), (P + 'gross2001.json', ['heptane']))}, 2, 350.0, 1000.0)]
    for name, spec, n, T, V in systems(tier, seed) + extra:
        if 'fun' in name and tier == 'quick':
            continue
        if name.startswith('epcsaft'):
            continue  # electrolyte model family: excluded by the property
        xf = {1: [1.0], 2: [0.4, 0.6], 3: [0.3, 0.5, 0.2]}[n]
        for order in ((2,) if tier == 'quick' else (2, 3)):
            # x[1] is the density here; witness on the finite-density path, fixed to 0 for the limit
            x = [T, 1e-4, 1.0] + [1.0] * n
            jobs.append(('virial%d/%s' % (order, name), {'job': 'virial', 'model': spec, 'molefracs': xf, 'order': order, 'x': x},
                         {'scale': False, 'fixed': {'1': 0.0}, 'budget_s': 200 if tier == 'quick' else 1200, 'soft': name.endswith('~') or order == 3,
                          # SAFT-VR(Q) Mie: the relation is outside the prover's reach (scope file) and carries recorded findings:
                          # only the native zero-density vs finite-density comparison is made, in both tiers
                          'native_only': name.startswith('saftvrmie') or name.startswith('saftvrqmie')}))
    return jobs


def jobs_C10(tier, seed):
    jobs = []
    I = 'ideal_gas/'
    jb = {'kind': 'joback', 'syn': [[-5.2, 0.35, -2.1e-4, 6.3e-8, -1.1e-11], [12.0, 0.2, 1.0e-4, -2.0e-8, 3.0e-12]]}
    d100 = {'kind': 'dippr', 'src': src((I + 'poling2000.json', ['ethanol', 'diethyl ether']))}
    for n, s in (('joback', jb), ('dippr100', d100)):
        jobs.append(('ideal_mix/' + n, {'job': 'ideal_mix', 'model': s, 'x': state(2, 350.0, 1000.0, seed)}, {'budget_s': 300}))
    # C10-b: heat capacity from the second temperature derivative of A_ig (Dual2<Sym>) vs the published correlation
    # coefficients chosen so that the library's f64 preprocessing c/k, c/(k+1) is exact (otherwise the identity only holds to roundoff)
    d100s = {'kind': 'dippr', 'syn': [[100, 27000.0, 36.0, 0.375, -0.00018310546875], [100, 33000.0, -12.0, 0.75, 0.000732421875]]}
    jobs.append(('ideal_cp/joback', {'job': 'ideal_cp', 'model': jb, 'rgas': 6.022140857 * 1.38064852, 'x': state(2, 350.0, 1000.0, seed)}, {'direct': True, 'scale': False}))
    jobs.append(('ideal_cp/dippr100', {'job': 'ideal_cp', 'model': d100s, 'rgas': 8.31446261815324 * 1000.0, 'skip': 1, 'x': state(2, 350.0, 1000.0, seed)}, {'direct': True, 'scale': False}))
    # integer coefficients: the library's f64 products b*c, p*p are exact
    d127s = {'kind': 'dippr', 'syn': [[127, 33000.0, 36000.0, 1200.0, 15000.0, 3200.0, 7000.0, 9600.0], [127, 30000.0, 30000.0, 1000.0, 12000.0, 3000.0, 5000.0, 8000.0]]}
    d107s = {'kind': 'dippr', 'syn': [[107, 33000.0, 26000.0, 2600.0, 8800.0, 1100.0], [107, 29000.0, 21000.0, 1500.0, 9000.0, 700.0]]}
    dto = 15000 if tier == 'quick' else 600000
    jobs.append(('ideal_cp/dippr127', {'job': 'ideal_cp', 'model': d127s, 'rgas': 8.31446261815324 * 1000.0, 'skip': 1, 'x': state(2, 350.0, 1000.0, seed)}, {'direct': 'ackermann', 'scale': False, 'direct_timeout_ms': dto}))
    jobs.append(('ideal_cp/dippr107', {'job': 'ideal_cp', 'model': d107s, 'rgas': 8.31446261815324 * 1000.0, 'skip': 1, 'x': state(2, 350.0, 1000.0, seed)}, {'direct': 'ackermann', 'scale': False, 'direct_timeout_ms': dto}))
    for n_, s_ in (('dippr127', d127s), ('dippr107', d107s)):
        jobs.append(('ideal_mix/' + n_, {'job': 'ideal_mix', 'model': s_, 'x': state(2, 350.0, 1000.0, seed)}, {'budget_s': 300}))
    if tier == 'thorough':
        d107 = {'kind': 'dippr', 'syn': [[107, 33363.0, 26790.0, 2610.5, 8896.0, 1169.0], [107, 29000.0, 21000.0, 1500.0, 9000.0, 700.0]]}
        d127 = {'kind': 'dippr', 'syn': [[127, 33258.0, 36199.0, 1205.0, 15176.0, 3277.0, 7002.0, 9876.0], [127, 30000.0, 30000.0, 1000.0, 12000.0, 3000.0, 5000.0, 8000.0]]}
        for n, s in (('dippr107', d107), ('dippr127', d127)):
            jobs.append(('ideal_mix/' + n, {'job': 'ideal_mix', 'model': s, 'x': state(2, 350.0, 1000.0, seed)}, {'budget_s': 600}))
    return jobs


def jobs_C01(tier, seed):
    jobs = []
    # cross-association: the site fractions come from an f64 Newton iteration (through .re()) and the derivatives are restored
    # by implicit differentiation (NDERIV Newton steps in dual numbers): the traces differ by construction, the native
    # finite-difference confirmation decides
    extra = [('pcsaft_xassoc', {'kind': 'pcsaft', 'src': src((P + 'rehner2020.json', ['water_4C', 'methanol']))}, 2, 350.0, 1000.0),
             ('pcsaft_csite', {'kind': 'pcsaft', 'src': src(('../../verif/symtrace/params/csite.json', ['acid_one_c_site']), (P + 'gross2001.json', ['heptane']))}, 2, 350.0, 1000.0),
             # SAFT-VR Mie with its own association term (2B methanol + inert)
             ('saftvrmie_assoc', {'kind': 'saftvrmie', 'src': src(('saftvrmie/lafitte2013.json', ['hexane', 'methanol']))}, 2, 350.0, 1000.0)]
    for name, spec, n, T, V in systems(tier, seed) + extra:
        x = state(n, T, V, seed)
        x2 = state(n, T * 1.13, V * 0.91, seed + 17)
        jobs.append(('twowit/' + name, {'job': 'twowit', 'model': spec, 'x': x, 'x2': x2}, {'scale': False, 'budget_s': 300, 'soft': name.endswith('~')}))
    # C01-c: homogeneity degrees of the derivative DAGs (the derivative path equals the value path's degree)
    first = ['T', 'V', 'N0']
    second = [['V', 'V'], ['T', 'V'], ['N0', 'N1'], ['T', 'T'], ['N0', 'V'], ['T', 'N1']]
    if tier == 'quick':
        second = []   # second-order derivative DAGs need long, timeout-sensitive proofs: thorough tier
    names = ('pr', 'pcsaft', 'pets') if tier == 'quick' else [s[0] for s in systems(tier, seed) if 'saftvrq' not in s[0]]
    for name, spec, n, T, V in systems(tier, seed):
        if name not in names:
            continue
        x = state(n, T, V, seed)
        for sd in first:
            jobs.append(('ext_d1/%s/%s' % (name, sd), {'job': 'ext', 'dual': 'first', 'seed': [sd], 'model': spec, 'x': x}, {'budget_s': 600, 'soft': name not in ('pr', 'pcsaft', 'pets')}))
        for sd in second:
            jobs.append(('ext_d2/%s/%s' % (name, ''.join(sd)), {'job': 'ext', 'dual': 'second', 'seed': sd, 'model': spec, 'x': x}, {'budget_s': 900, 'soft': True}))
        if tier == 'thorough':
            for sd in ('V', 'T'):
                jobs.append(('ext_d3/%s/%s' % (name, sd), {'job': 'ext', 'dual': 'third', 'seed': [sd], 'model': spec, 'x': x}, {'budget_s': 1200, 'soft': True}))
    return jobs
