"""E-M, State layer: every derivative getter of `State` (residual_properties.rs / properties.rs) is executed
symbolically from its MIR with the cache access `get_or_compute_derivative_residual(key)` and the ideal-gas
evaluation as calls returning stable opaque symbols.  z3 then decides, for a symbolic `Contributions` selector and
symbolic component indices, that the getter returns  sel(c, ideal, sign * R[key])  with the key, the sign and the
ideal part the definition of the property requires (C01-a plumbing, C10-a selector, C11: no access to the cache
other than through the keyed lookup)."""
import re, os, json
import mir, mirfloat
from mirfloat import Interp, Enum, SymEnum, Struct, Closure, Unsupported, smt
from common import *

ENUMS = {'PartialDerivative': ['Zeroth', 'First', 'Second', 'SecondMixed', 'Third'], 'Derivative': ['DV', 'DT', 'DN'],
         'Contributions': ['IdealGas', 'Residual', 'Total'], 'Option': ['None', 'Some']}


def keyname(v):
    """canonical text of a PartialDerivative / Derivative value (mixed keys unordered)"""
    if isinstance(v, Enum):
        if v.name == 'SecondMixed':
            a, b = sorted(keyname(x) for x in v.payload)
            return 'SecondMixed(%s,%s)' % (a, b)
        if not v.payload: return v.name
        return '%s(%s)' % (v.name, ','.join(keyname(x) for x in v.payload))
    if isinstance(v, tuple):
        if v[0] in ('ivar', 'var'): return v[1]
        if v[0] == 'iconst': return str(v[1])
    return repr(v)


class Getters:
    def __init__(self, mirpath):
        pat_r = r'residual_properties::<impl at [^>]*>::'
        pat_p = r'properties::<impl at [^>]*>::'
        self.funcs = {}
        want = [pat_r + r'\w+', pat_p + r'\w+', pat_r + r'\w+::\{closure#\d+\}', pat_p + r'\w+::\{closure#\d+\}']
        fs = mir.parse_functions(mirpath, want)
        for lst in fs.values():
            for f in lst:
                self.funcs.setdefault(f.name.split('>::', 1)[1], []).append(f)
        self.names = {}
        src = open(os.path.join(REPO, 'feos-core/src/state/mod.rs')).read()
        sb = src[src.index('pub struct State<E>'):]
        sb = sb[sb.index('{') + 1:sb.index('\n}')]
        self.state_fields = re.findall(r'^\s*(?:pub )?(\w+):', sb, re.M)
        self.foreign_calls = []
        self.getter_calls = []
        self.composite_mode = False

    def stable(self, text):
        """same description -> same z3 variable"""
        if text not in self.names:
            self.names[text] = 'o%d' % len(self.names)
        return ('var', self.names[text])

    def state_struct(self):
        return Struct('State', self.state_fields, [('var', 'S_' + n) for n in self.state_fields])

    def glue(self, callee, args, dst_type, it):
        short = callee.split('>::')[-1] if '>::' in callee else callee
        if callee.endswith('::get_or_compute_derivative_residual'):
            return self.stable('R[%s]' % keyname(args[1]))
        m = re.search(r'::(derive0|derive1|derive2|derive2_mixed|derive3)$', callee)
        if m:
            names = [keyname(a) for a in args[1:]]
            if m.group(1) == 'derive2_mixed': names = sorted(names)    # the mixed second derivative is symmetric
            return ('opq', '%s(%s)' % (m.group(1), ','.join(names)))
        if 'ideal_gas_helmholtz_energy' in callee:
            return ('opq', 'ig(%s)' % self.describe(args[1]))
        if re.search(r'<(?:num_dual::)?(?:Dual|Dual2|Dual3|HyperDual)<.*> as Mul>::mul$', callee):
            return ('opq', 'dualmul(%s,%s)' % (self.describe(args[0]), self.describe(args[1])))
        if 'as Deref>::deref' in callee or callee.endswith('::to_owned') or callee.endswith('::clone'): return args[0]
        m = re.search(r' as (Div|Mul|Add|Sub)(?:<.*>)?>::(div|mul|add|sub)$', callee)
        if m: return ({'Div': 'div', 'Mul': 'mul', 'Add': 'add', 'Sub': 'sub'}[m.group(1)], self.real(args[0]), self.real(args[1]))
        if re.search(r' as Neg>::neg$', callee): return ('neg', self.real(args[0]))
        if callee.endswith('::from_reduced') or callee.endswith('::to_reduced') or callee.endswith('::into_reduced') or callee.endswith('::into_value'):
            return args[0]     # unit factors abstracted: from_reduced / to_reduced are read as identities
        if '::from_shape_fn' in callee or callee.endswith('::from_shape_fn'):
            clo = args[-1]
            body = [f for lst in self.funcs.values() for f in lst if clo.typename in f.header]
            if len(body) != 1: raise Unsupported('closure body of from_shape_fn')
            idx = ('tuple', ('ivar', 'i'), ('ivar', 'j')) if 'Dim<[usize; 2]>' in callee or '(usize, usize)' in body[0].header else ('ivar', 'i')
            sub = Interp(body[0], {'_1': clo, '_2': idx}, glue=self.glue); sub.enums = ENUMS; sub.opaque_ok = True
            return sub.run()
        if callee.endswith('::contributions') or re.search(r'::contributions::<', callee):
            f = self.funcs['contributions'][0]
            sub = Interp(f, {'_1': args[0], '_2': args[1], '_3': args[2]}, glue=self.glue); sub.enums = ENUMS; sub.opaque_ok = True
            return sub.run()
        m = re.search(r'(?:residual_)?properties::<impl State<E>>::(\w+)$', callee)
        if m and getattr(self, 'composite_mode', False) and m.group(1) not in ('get_or_compute_derivative', 'contributions'):
            # composite layer: another getter of State is an opaque symbol indexed by the selector it receives
            sel = []
            for a in args[1:]:
                if isinstance(a, SymEnum): sel.append('c')
                elif isinstance(a, Enum): sel.append(a.name)
                else: sel.append(re.sub(r'\W', '', self.describe(a)))
            self.getter_calls.append((m.group(1), tuple(sel)))
            return ('var', 'G_%s%s' % (m.group(1), ''.join('_' + x for x in sel)))
        if getattr(self, 'composite_mode', False):
            mp = re.search(r'::powi::<(?:typenum::)?(?:\w+::)*([PN])(\d)>$', callee)
            if mp: return ('powi', self.real(args[0]), int(mp.group(2)) * (1 if mp.group(1) == 'P' else -1))
            mp = re.search(r'::powi::<([PN])Int<(.*)>>$', callee)     # typenum integer: bits B1/B0, most significant first
            if mp:
                bits = ''.join(re.findall(r'B([01])', mp.group(2)))
                return ('powi', self.real(args[0]), int(bits, 2) * (1 if mp.group(1) == 'P' else -1))
        if m and m.group(1) in self.funcs and m.group(1) == 'get_or_compute_derivative':
            f = self.funcs[m.group(1)][0]
            sub = Interp(f, {'_%d' % (k + 1): a for k, a in enumerate(args)}, glue=self.glue); sub.enums = ENUMS; sub.opaque_ok = True
            return sub.run()
        if callee.endswith('::components'): return ('ivar', 'ncomp')
        if re.search(r'::get(::<[^>]*>)?$', callee):
            return self.stable('elem(%s,%s)' % (self.describe(args[0]), keyname(args[1])))
        if 'from_vec' in callee: return args[0]
        if 'vec::from_elem' in callee or callee.startswith('from_elem'): return args[0]     # vec![x; n]: every element is x
        if 'from_elem' in callee: return args[1]                                            # ndarray from_elem(shape, x)
        self.foreign_calls.append(callee[:160])
        return self.stable('call:%s(%s)' % (short[:60], ','.join(self.describe(a) for a in args)))

    def describe(self, v):
        if isinstance(v, tuple) and v and v[0] == 'opq': return v[1]
        if isinstance(v, tuple) and v and v[0] in ('var', 'ivar'): return v[1]
        if isinstance(v, Enum): return keyname(v)
        if isinstance(v, Struct): return 'self'
        return re.sub(r'\s+', '', repr(v))[:80]

    def real(self, v):
        if isinstance(v, tuple) and v and v[0] == 'opq': return self.stable(v[1])
        return v

    def run(self, name, contrib=True, nargs=1):
        f = self.funcs[name][0]
        args = {'_1': self.state_struct()}
        if contrib and '_2' in f.types:
            args['_2'] = SymEnum(('ivar', 'c'), {0: ('IdealGas', []), 1: ('Residual', []), 2: ('Total', [])}, label='contrib')
        it = OpaqueInterp(f, args, glue=self.glue, owner=self)
        it.enums = ENUMS
        it.opaque_ok = True
        return it.run()


class OpaqueInterp(Interp):
    """fields of opaque (abstract-call) values are stable opaque symbols themselves"""
    def __init__(self, func, args, glue=None, owner=None):
        super().__init__(func, args, glue=glue)
        self.owner = owner


def _patch_place():
    orig = Interp.place

    def place(self, p, env):
        p = p.strip()
        m = re.fullmatch(r'\((.*)\.(\d+): [^()]*(?:\([^()]*\))?[^()]*\)', p)
        if m and self.balanced(m.group(1)):
            try:
                base = orig(self, m.group(1), env)
            except Unsupported:
                base = None
            if isinstance(base, tuple) and base and base[0] == 'opq':
                return ('opq', '%s.%s' % (base[1], m.group(2)))
        return orig(self, p, env)
    Interp.place = place

    orig_rv = Interp.rvalue

    def rvalue(self, rv, env, dst_type):
        rv = rv.strip()
        m = re.fullmatch(r'(?:[\w:]+::)?(PartialDerivative|Derivative|Contributions)::(\w+)(?:\((.*)\))?', rv)
        if m:
            names = ENUMS[m.group(1)]
            payload = [self.operand(x, env) for x in self.split_args(m.group(3))] if m.group(3) else []
            return Enum(names.index(m.group(2)), m.group(2), payload)
        m = re.fullmatch(r'(?:std::option::)?Option::<.*>::(None|Some)(?:\((.*)\))?', rv)
        if m:
            return Enum(0 if m.group(1) == 'None' else 1, m.group(1), [self.operand(m.group(2), env)] if m.group(2) else [])
        return orig_rv(self, rv, env, dst_type)
    Interp.rvalue = rvalue


_patch_place()


# ---------------------------------------------------------------- the specification table
def R(key): return ('R', key)


RG = ('var', 'RGAS')
T_, V_, RHO = ('var', 'S_temperature'), ('var', 'S_volume'), ('var', 'S_density')

# name -> (sign of the residual part, key, ideal part or None (via get_or_compute_derivative: opaque I[key]) or 'none' (residual-only getter))
SPEC = {
    'residual_helmholtz_energy': (+1, 'Zeroth', 'none'),
    'residual_entropy': (-1, 'First(DT)', 'none'),
    'residual_chemical_potential': (+1, 'First(DN(i))', 'none'),
    'ds_res_dt': (-1, 'Second(DT)', 'none'),
    'd2s_res_dt2': (-1, 'Third(DT)', 'none'),
    'dmu_res_dt': (+1, 'SecondMixed(DN(i),DT)', 'none'),
    'pressure': (-1, 'First(DV)', ('mul', ('mul', RHO, RG), T_)),
    'dp_dv': (-1, 'Second(DV)', ('div', ('mul', ('mul', ('neg', RHO), RG), T_), V_)),
    'dp_dt': (-1, 'SecondMixed(DT,DV)', ('mul', RHO, RG)),
    'dp_dni': (-1, 'SecondMixed(DN(i),DV)', ('div', ('mul', RG, T_), V_)),
    'd2p_dv2': (-1, 'Third(DV)', ('div', ('mul', ('mul', ('mul', ('const', 2), RHO), RG), T_), ('mul', V_, V_))),
    'dmu_dni': (+1, 'SecondMixed(DN(i),DN(j))', 'dmu_dni_ideal'),
    'helmholtz_energy': (+1, 'Zeroth', None),
    'entropy': (-1, 'First(DT)', None),
    'chemical_potential': (+1, 'First(DN(i))', None),
    'dmu_dt': (+1, 'SecondMixed(DN(i),DT)', None),
    'ds_dt': (-1, 'Second(DT)', None),
    'd2s_dt2': (-1, 'Third(DT)', None),
}
# which dual part carries the derivative of each order (num-dual field order: Dual (re, eps), Dual2 (re, v1, v2),
# HyperDual (re, eps1, eps2, eps1eps2), Dual3 (re, v1, v2, v3))
IDEAL_FIELD = {'First': ('derive1', 1), 'Second': ('derive2', 2), 'SecondMixed': ('derive2_mixed', 3), 'Third': ('derive3', 3)}


def ideal_symbol(g, key):
    """the opaque symbol the ideal part must be: field k of (ig(derive_k(v)) * derive_k(v).temperature)"""
    if key == 'Zeroth':
        return None  # checked structurally below (plain f64 product)
    kind = key.split('(')[0]
    inner = key[key.index('(') + 1:-1]
    fn, fld = IDEAL_FIELD[kind]
    return '%s(%s)' % (fn, inner), fld


def check_getters(out, cov, mirpath):
    from fractions import Fraction
    g = Getters(mirpath)
    queries = []
    for name, (sign, key, ideal) in SPEC.items():
        if name not in g.funcs:
            out.inconclusive.append('getter %s not found in the MIR dump' % name); continue
        g.foreign_calls = []
        try:
            term = g.run(name)
        except Exception as e:
            out.inconclusive.append('getter %s: MIR interpretation failed: %r' % (name, e)); continue
        decls, axioms = set(), set()

        def conv(t):
            if isinstance(t, tuple) and t and t[0] == 'opq': return g.stable(t[1])
            if isinstance(t, tuple): return tuple(conv(x) if isinstance(x, tuple) else x for x in t)
            return t
        try:
            got = smt(conv(term), decls, axioms)
        except Exception as e:
            out.inconclusive.append('getter %s: result is not a real term: %r' % (name, e)); continue
        res = g.stable('R[%s]' % key)
        rs = smt(res, decls, axioms)
        res_s = rs if sign > 0 else '(- %s)' % rs
        if ideal == 'none':
            spec = res_s
        else:
            if ideal is None:
                if key == 'Zeroth':
                    ig = g.stable('call:ideal_gas_helmholtz_energy::<f64>(ig(derive0()),)')  # placeholder, replaced below
                    # zeroth order: ig(derive0()) * derive0().0  (plain f64 product)
                    a = g.stable('ig(derive0())'); b = g.stable('derive0().0')
                    isym = '(* %s %s)' % (smt(a, decls, axioms), smt(b, decls, axioms))
                else:
                    st, fld = ideal_symbol(g, key)
                    v = g.stable('dualmul(ig(%s),%s.0).%d' % (st, st, fld))
                    isym = smt(v, decls, axioms)
                ideal_s = isym if sign > 0 else '(- %s)' % isym
            elif ideal == 'dmu_dni_ideal':
                # R T / N_i on the diagonal, zero elsewhere
                ni = g.stable('elem(S_moles,i)')
                ideal_s = '(ite (= i j) (/ (* RGAS S_temperature) %s) 0.0)' % smt(ni, decls, axioms)
                for nm in ('i', 'j'): decls.add(('int', nm))
                decls.add(('real', 'RGAS')); decls.add(('real', 'S_temperature'))
            else:
                def cf(t):
                    if t[0] == 'const': return ('const', Fraction(t[1]))
                    return tuple(cf(x) if isinstance(x, tuple) else x for x in t)
                ideal_s = smt(cf(ideal), decls, axioms)
            spec = '(ite (= c 0) %s (ite (= c 1) %s (+ %s %s)))' % (ideal_s, res_s, ideal_s, res_s)
        script = ['(set-logic ALL)']
        for k_, n_ in sorted(decls):
            script.append('(declare-const %s %s)' % (n_, 'Int' if k_ == 'int' else 'Real'))
        if ('int', 'c') not in decls: script.append('(declare-const c Int)')
        script.append('(assert (and (>= c 0) (<= c 2)))')
        script.append('(assert (not (= %s %s)))' % (got, spec))
        ans, tac, secs = mirfloat.solve('\n'.join(script), timeout=20)
        queries.append({'getter': name, 'key': key, 'sign': sign, 'answer': ans, 'solver_s': round(secs, 2), 'returned': got[:160], 'foreign_calls': g.foreign_calls[:3]})
    return queries, g


# ---------------------------------------------------------------- composite getters
def G(name, *sel): return 'G_%s%s' % (name, ''.join('_' + x for x in sel))


_T, _V, _N, _RHO = 'S_temperature', 'S_volume', 'S_total_moles', 'S_density'
# name -> SMT term over the symbols G_<getter>_<selector> (selector 'c' = the composite's own argument), written from the
# definitions in the documentation of the properties.  Contributions: c = 0 IdealGas, 1 Residual, 2 Total.
COMPOSITE = {
    'molar_isochoric_heat_capacity': lambda: '(/ (* %s %s) %s)' % (_T, G('ds_dt', 'c'), _N),
    'dc_v_dt': lambda: '(/ (+ (* %s %s) %s) %s)' % (_T, G('d2s_dt2', 'c'), G('ds_dt', 'c'), _N),
    'molar_isobaric_heat_capacity': lambda: '(ite (= c 1) %s (* (/ %s %s) (- %s (/ (* %s %s) %s))))' % (
        G('residual_molar_isobaric_heat_capacity'), _T, _N, G('ds_dt', 'c'), G('dp_dt', 'c'), G('dp_dt', 'c'), G('dp_dv', 'c')),
    'molar_entropy': lambda: '(/ %s %s)' % (G('entropy', 'c'), _N),
    'enthalpy': lambda: '(+ (+ (* %s %s) %s) (* %s %s))' % (_T, G('entropy', 'c'), G('helmholtz_energy', 'c'), G('pressure', 'c'), _V),
    'molar_enthalpy': lambda: '(/ %s %s)' % (G('enthalpy', 'c'), _N),
    'molar_helmholtz_energy': lambda: '(/ %s %s)' % (G('helmholtz_energy', 'c'), _N),
    'internal_energy': lambda: '(+ (* %s %s) %s)' % (_T, G('entropy', 'c'), G('helmholtz_energy', 'c')),
    'molar_internal_energy': lambda: '(/ %s %s)' % (G('internal_energy', 'c'), _N),
    'gibbs_energy': lambda: '(+ (* %s %s) %s)' % (G('pressure', 'c'), _V, G('helmholtz_energy', 'c')),
    'molar_gibbs_energy': lambda: '(/ %s %s)' % (G('gibbs_energy', 'c'), _N),
    'compressibility': lambda: '(/ %s (* (* %s %s) RGAS))' % (G('pressure', 'c'), _RHO, _T),
    'dp_drho': lambda: '(* (/ (- %s) %s) %s)' % (_V, _RHO, G('dp_dv', 'c')),
    'specific_isochoric_heat_capacity': lambda: '(/ %s %s)' % (G('molar_isochoric_heat_capacity', 'c'), G('total_molar_weight')),
    'specific_isobaric_heat_capacity': lambda: '(/ %s %s)' % (G('molar_isobaric_heat_capacity', 'c'), G('total_molar_weight')),
    'specific_entropy': lambda: '(/ %s %s)' % (G('molar_entropy', 'c'), G('total_molar_weight')),
    'specific_enthalpy': lambda: '(/ %s %s)' % (G('molar_enthalpy', 'c'), G('total_molar_weight')),
    'specific_helmholtz_energy': lambda: '(/ %s %s)' % (G('molar_helmholtz_energy', 'c'), G('total_molar_weight')),
    'specific_internal_energy': lambda: '(/ %s %s)' % (G('molar_internal_energy', 'c'), G('total_molar_weight')),
    'specific_gibbs_energy': lambda: '(/ %s %s)' % (G('molar_gibbs_energy', 'c'), G('total_molar_weight')),
    # residual-only composites
    'residual_molar_helmholtz_energy': lambda: '(/ %s %s)' % (G('residual_helmholtz_energy'), _N),
    'residual_molar_entropy': lambda: '(/ %s %s)' % (G('residual_entropy'), _N),
    'residual_molar_isochoric_heat_capacity': lambda: '(/ (* %s %s) %s)' % (_T, G('ds_res_dt'), _N),
    'dc_v_res_dt': lambda: '(/ (+ (* %s %s) %s) %s)' % (_T, G('d2s_res_dt2'), G('ds_res_dt'), _N),
    'residual_molar_isobaric_heat_capacity': lambda: '(- (* (/ %s %s) (- %s (/ (* %s %s) %s))) RGAS)' % (
        _T, _N, G('ds_res_dt'), G('dp_dt', 'Total'), G('dp_dt', 'Total'), G('dp_dv', 'Total')),
    'residual_enthalpy': lambda: '(+ (+ (* %s %s) %s) (* %s %s))' % (_T, G('residual_entropy'), G('residual_helmholtz_energy'), G('pressure', 'Residual'), _V),
    'residual_molar_enthalpy': lambda: '(/ %s %s)' % (G('residual_enthalpy'), _N),
    'residual_internal_energy': lambda: '(+ (* %s %s) %s)' % (_T, G('residual_entropy'), G('residual_helmholtz_energy')),
    'residual_molar_internal_energy': lambda: '(/ %s %s)' % (G('residual_internal_energy'), _N),
    'residual_gibbs_energy': lambda: '(- (+ (* %s %s) %s) (* (* (* %s RGAS) %s) (u_ln %s)))' % (
        G('pressure', 'Residual'), _V, G('residual_helmholtz_energy'), _N, _T, G('compressibility', 'Total')),
    'residual_molar_gibbs_energy': lambda: '(/ %s %s)' % (G('residual_gibbs_energy'), _N),
    # derived coefficients (total contributions by definition)
    'joule_thomson': lambda: '(/ (- (+ %s (/ (* %s %s) %s))) (* %s %s))' % (_V, _T, G('dp_dt', 'Total'), G('dp_dv', 'Total'), _N, G('molar_isobaric_heat_capacity', 'Total')),
    'isentropic_compressibility': lambda: '(/ (- %s) (* (* %s %s) %s))' % (G('molar_isochoric_heat_capacity', 'Total'), G('molar_isobaric_heat_capacity', 'Total'), G('dp_dv', 'Total'), _V),
    'thermal_expansivity': lambda: '(/ (/ (- %s) %s) %s)' % (G('dp_dt', 'Total'), G('dp_dv', 'Total'), _V),
    'grueneisen_parameter': lambda: '(* (/ %s (* %s %s)) %s)' % (_V, _N, G('molar_isochoric_heat_capacity', 'Total'), G('dp_dt', 'Total')),
    'isothermal_compressibility': lambda: '(/ (- 1.0) (* %s %s))' % (G('dp_dv', 'Total'), _V),
    'structure_factor': lambda: '(- (/ (* (* RGAS %s) %s) (* %s %s)))' % (_T, _RHO, _V, G('dp_dv', 'Total')),
}


def check_composites(out, g):
    """composite getters: executed from their MIR with every other State getter as an opaque symbol indexed by the selector
    it receives; z3 decides that the composite equals its defining formula with the composite's own selector passed on"""
    queries = []
    g.composite_mode = True
    for name, spec_f in COMPOSITE.items():
        if name not in g.funcs:
            out.inconclusive.append('composite getter %s not found in the MIR dump' % name); continue
        g.foreign_calls = []; g.getter_calls = []
        try:
            term = g.run(name)
        except Exception as e:
            out.inconclusive.append('composite getter %s: MIR interpretation failed: %r' % (name, e)); continue
        decls, axioms = set(), set()

        def conv(t):
            if isinstance(t, tuple) and t and t[0] == 'opq': return g.stable(t[1])
            if isinstance(t, tuple): return tuple(conv(x) if isinstance(x, tuple) else x for x in t)
            return t
        try:
            got = smt(conv(term), decls, axioms)
        except Exception as e:
            out.inconclusive.append('composite getter %s: result is not a real term: %r' % (name, e)); continue
        spec = spec_f()
        names = set(n for k, n in decls if k == 'real') | set(re.findall(r'\b(?:G_\w+|S_\w+|RGAS)\b', spec))
        script = ['(set-logic ALL)', '(declare-const c Int)', '(assert (and (>= c 0) (<= c 2)))', '(declare-fun u_ln (Real) Real)']
        for n_ in sorted(names):
            if n_ != 'c': script.append('(declare-const %s Real)' % n_)
        for k_, n_ in sorted(decls):
            if k_ == 'int' and n_ != 'c': script.append('(declare-const %s Int)' % n_)
        # denominators of the definition are non-zero (SMT division is total)
        for n_ in sorted(names):
            if n_.startswith('S_') or n_.startswith('G_'): script.append('(assert (not (= %s 0.0)))' % n_)
        script.append('(assert (not (= %s %s)))' % (got, spec))
        ans, tac, secs = mirfloat.solve('\n'.join(script), timeout=20)
        queries.append({'getter': name, 'composite': True, 'answer': ans, 'solver_s': round(secs, 2), 'returned': got[:200], 'definition': spec[:200],
                        'getter_calls': sorted(set('%s(%s)' % (n, ','.join(s_)) for n, s_ in g.getter_calls)), 'foreign_calls': g.foreign_calls[:3]})
    g.composite_mode = False
    return queries


def getter_map_part(out, prop, cov, role):
    """role: 'C01' (key / sign / dual part of every getter), 'C10' (selector), 'C11' (no cache access besides the keyed lookup).
    The same z3 queries serve all three; a failing query is attributed by a native confirmation (props.NATIVE_BIN getter_checks)."""
    import props
    path, dump_s = mir.dump_mir('feos-core')
    queries, g = check_getters(out, cov, path)
    if role in ('C01', 'C10'):
        queries = queries + check_composites(out, g)
    cov['getter_map'] = {'queries': queries, 'mir_dump_s': round(dump_s, 1), 'getters': len(queries),
                         'proved': sum(1 for q in queries if q['answer'] == 'unsat')}
    cov['obligations'] = cov.get('obligations', 0) + len(queries)
    cov['discharged'] = cov.get('discharged', 0) + sum(1 for q in queries if q['answer'] == 'unsat')
    bad = [q for q in queries if q['answer'] != 'unsat']
    if not bad:
        return
    props.build_native()
    pn = sh([props.NATIVE_BIN, 'getter_checks'], timeout=1200)
    try:
        nat = json.loads(pn.stdout.strip().splitlines()[-1])
    except Exception:
        nat = None
    for q in bad:
        if q['answer'] != 'sat':
            out.inconclusive.append('getter %s: z3 answered %s' % (q['getter'], q['answer'])); continue
        name = q['getter']
        hit = None
        if nat is not None:
            if role == 'C01': hit = [m for m in nat['fd_mismatches'] + nat.get('composite_mismatches', []) if m['getter'].split('[')[0] == name]
            if role == 'C10': hit = [m for m in nat['selector_mismatches'] if m['getter'].split('[')[0] == name]
            if role == 'C11': hit = [m for m in nat['history_mismatches'] if m['then'].split('[')[0] == name]
        if hit:
            what = {'C01': 'is not the derivative of the lower-order property (finite difference on fresh states)',
                    'C10': 'Total differs from IdealGas + Residual', 'C11': 'depends on which getter was evaluated before it'}[role]
            if q.get('composite'):
                what = {'C01': 'differs from its defining formula evaluated with the base getters', 'C10': 'Total differs from IdealGas + Residual'}[role]
                form = 'does not equal its defining formula with the selector passed on to every getter it uses (%s) on its MIR (z3: sat; getters used: %s)' % (q['definition'], q['getter_calls'])
            else:
                form = 'does not reduce to sel(c, ideal, %s R[%s]) on its MIR (z3: sat; foreign calls %s)' % ('+' if q['sign'] > 0 else '-', q['key'], q['foreign_calls'])
            out.violation({'engine': 'E-M', 'site': 'State::%s' % name},
                          '%s: State::%s %s and natively %s: %s' % (prop, name, form, what, json.dumps(hit[0])),
                          {'native_cmd': '%s getter_checks' % props.NATIVE_BIN, 'native': hit[:3], 'query': q})
        else:
            # the getter deviates from the specified plumbing, but this property's own native formulation does not show it
            cov['getter_map'].setdefault('unconfirmed', []).append({'getter': name, 'role': role})
            if role == 'C01' and nat is not None and not any(m for m in nat['history_mismatches'] if m['then'].split('[')[0] == name) \
                    and not any(m for m in nat['selector_mismatches'] if m['getter'].split('[')[0] == name):
                out.inconclusive.append('getter %s deviates from the specified plumbing on its MIR but no native check (finite differences, selector, histories) reproduces a wrong value' % name)
