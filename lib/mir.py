"""E-M: rustc nightly MIR dump -> (a) constrained Horn clauses over the integer/boolean control slice of a
function (z3 Spacer), (b) real-arithmetic SMT terms for loop-free f64 leaf bodies.

The dump is regenerated from /repo's working tree on every run (dump_mir)."""
import re, os, subprocess, time, json
from common import *

MIRDIR = os.path.join(WORK, 'mir')


def dump_mir(package, features=None, lib_touch=None):
    """cargo +nightly rustc -p <package> --lib -- -Zunpretty=mir ; returns path of the dump"""
    os.makedirs(MIRDIR, exist_ok=True)
    out = os.path.join(MIRDIR, package.replace('-', '_') + '.mir')
    touch = lib_touch or {'feos-core': 'feos-core/src/lib.rs', 'feos-dft': 'feos-dft/src/lib.rs', 'feos': 'src/lib.rs'}[package]
    # touching forces rustc to run again (cargo would otherwise print nothing); content is unchanged
    st = os.stat(os.path.join(REPO, touch))
    os.utime(os.path.join(REPO, touch), None)
    cmd = 'cargo +nightly rustc --offline -p %s --lib --target-dir %s %s -- -Zunpretty=mir -C debug-assertions=off -C overflow-checks=on' % (
        package, os.path.join(MIRDIR, 'target'), ('--features ' + features) if features else '')
    t0 = time.time()
    p = subprocess.run(cmd, cwd=REPO, shell=True, stdout=open(out, 'w'), stderr=subprocess.PIPE, text=True, env=ENV, timeout=3000)
    os.utime(os.path.join(REPO, touch), (st.st_atime, st.st_mtime))
    if p.returncode != 0 or os.path.getsize(out) < 1000:
        raise RuntimeError('MIR dump failed for %s: %s' % (package, p.stderr[-2000:]))
    return out, time.time() - t0


class Func:
    def __init__(self, name, header, lines):
        self.name, self.header = name, header
        self.types = {}
        self.debug = {}    # local -> source name (from `debug x => _N;`)
        self.blocks = {}   # bb -> (statements [str], terminator str)
        self.order = []
        for m in re.finditer(r'(_\d+): ([^,()]+(?:\([^()]*\))?[^,()]*)', header.split('->')[0]):
            pass
        # argument types: parse "fn name(_1: T1, _2: T2) -> R {" with nesting
        args = header[header.index('(') + 1:header.rindex(') ->') if ') ->' in header else header.rindex(')')]
        depth = 0; cur = ''
        parts = []
        for ch in args:
            if ch in '<([': depth += 1
            if ch in '>)]': depth -= 1
            if ch == ',' and depth == 0:
                parts.append(cur); cur = ''
            else:
                cur += ch
        if cur.strip(): parts.append(cur)
        for p in parts:
            if ':' in p:
                n, t = p.split(':', 1)
                self.types[n.strip()] = t.strip()
        cur_bb = None
        for ln in lines:
            s = ln.strip()
            m = re.match(r'debug (\w+) => (_\d+);$', s)
            if m and cur_bb is None:
                self.debug[m.group(2)] = m.group(1)
                continue
            m = re.match(r'let (?:mut )?(_\d+): (.*);$', s)
            if m and cur_bb is None:
                self.types[m.group(1)] = m.group(2)
                continue
            m = re.match(r'(bb\d+)(?: \(cleanup\))?: \{$', s)
            if m:
                cur_bb = m.group(1); self.blocks[cur_bb] = []; self.order.append(cur_bb)
                continue
            if s == '}' and cur_bb is not None:
                cur_bb = None
                continue
            if cur_bb is not None and s:
                self.blocks[cur_bb].append(s)


def parse_functions(path, wanted):
    """wanted: list of regexes on the header line `fn <name>(`; returns {regex: [Func, ...]}"""
    res = {w: [] for w in wanted}
    cur = None
    with open(path) as f:
        for ln in f:
            if cur is None:
                if ln.startswith('fn '):
                    for w in wanted:
                        if re.match(r'fn ' + w + r'\(', ln):
                            cur = (w, ln.rstrip('\n'), [])
                            break
            else:
                if ln.startswith('}'):
                    w, header, lines = cur
                    name = header[3:header.index('(')]
                    res[w].append(Func(name, header, lines))
                    cur = None
                else:
                    cur[2].append(ln.rstrip('\n'))
    return res


# ------------------------------------------------------------------------------------------------
# control slice -> CHC
# ------------------------------------------------------------------------------------------------
INT_T = ('i32', 'usize', 'isize', 'i64', 'u64', 'u32', 'u8')


class Slice:
    """Abstract the function to its integer/boolean locals.  Tracked components:
       int/bool locals; Range<i32> as (start, end); Option<i32> as (tag, val); (i32, bool) as (v, o).
       Everything else is dropped; calls return nondeterministic values; a switchInt on a dropped value is a
       nondeterministic branch.  Ghost `exh`: the last Range::next poll returned None."""

    def __init__(self, func, keep=None):
        self.f = func
        self.keep = keep
        self.informative = set()
        self.comp = []     # component names, e.g. '_28', '_31.s', '_31.e', '_32.t', '_32.v', '_36.v', '_36.o'
        self.sort = {}
        for loc, t in func.types.items():
            t = t.strip()
            if t in INT_T: self.add(loc, 'Int')
            elif t == 'bool': self.add(loc, 'Bool')
            elif re.fullmatch(r'std::ops::Range<(i32|usize)>', t): self.add(loc + '.s', 'Int'); self.add(loc + '.e', 'Int')
            elif re.fullmatch(r'std::option::Option<(i32|usize)>', t): self.add(loc + '.t', 'Int'); self.add(loc + '.v', 'Int')
            elif re.fullmatch(r'\((i32|usize), bool\)', t): self.add(loc + '.v', 'Int'); self.add(loc + '.o', 'Bool')
            elif t.startswith('std::result::Result<'): self.add(loc + '.t', 'Int')     # 0 = Ok, 1 = Err
            elif re.fullmatch(r'&mut std::ops::Range<(i32|usize)>', t): pass
        self.add('exh', 'Bool')
        # named integer constants (e.g. `const state::newton::MAX_ITER` as a range bound): one rigid symbol per name, carried
        # unchanged through every rule (the value is not needed: the claim holds for every value)
        self.named = set()
        for bb, sts in func.blocks.items():
            for st_ in sts:
                for nm in re.findall(r'const (?:[\w<>]+::)*([A-Z][A-Z0-9_]*)\b(?!_)', st_):
                    if re.search(r'Range::<\w+> \{[^}]*const (?:[\w<>]+::)*' + nm + r'\b', st_) or re.search(r'(?:Lt|Le|Gt|Ge|Eq|Ne|Add|Sub)\([^)]*const (?:[\w<>]+::)*' + nm + r'\b', st_):
                        self.named.add(nm)
        for nm in sorted(self.named):
            self.add('K_' + nm, 'Int')
            self.informative.add('K_' + nm)
        self.refs = {}     # &mut Range local -> range local (syntactic, per function)
        for bb, sts in func.blocks.items():
            for s in sts:
                m = re.match(r'(_\d+) = &mut (_\d+);', s)
                if m and (m.group(2) + '.s') in self.sort:
                    self.refs[m.group(1)] = m.group(2)
        self.fresh = 0
        self.rules = []
        self.decls = []

    def add(self, name, sort):
        if self.keep is not None and name not in self.keep and name != 'exh':
            return
        self.comp.append(name); self.sort[name] = sort

    @staticmethod
    def pruned(func):
        """drop components that never receive anything but nondeterministic values (call results,
        discriminants of dropped values): they carry no information and only slow Spacer down"""
        a = Slice(func)
        a.encode()
        keep = set(a.informative)
        b = Slice(func, keep=keep)
        b.encode()
        return b

    def var(self, c):
        return 'v' + c.replace('.', '_')

    def newvar(self, sort):
        self.fresh += 1
        n = 'h%d' % self.fresh
        self.decls.append((n, sort))
        return n

    def operand(self, op, st):
        """value of an operand as (smt term, sort) or None if untracked"""
        op = op.strip()
        m = re.fullmatch(r'(?:copy |move )?(_\d+)', op)
        if m:
            if m.group(1) in self.sort: return st[m.group(1)], self.sort[m.group(1)]
            return None
        m = re.fullmatch(r'(?:copy |move )?\((_\d+)\.(\d): [^)]*\)', op)
        if m:
            loc, k = m.group(1), m.group(2)
            key = loc + ('.v' if k == '0' else '.o')
            if key in self.sort: return st[key], self.sort[key]
            return None
        m = re.fullmatch(r'(?:copy |move )?\(\((_\d+) as Some\)\.0: [^)]*\)', op)
        if m and (m.group(1) + '.v') in self.sort:
            return st[m.group(1) + '.v'], 'Int'
        m = re.fullmatch(r'const (-?\d+)_(?:i32|usize|isize|i64|u64|u32|u8)', op)
        if m:
            v = int(m.group(1))
            return ('(- %d)' % -v if v < 0 else str(v)), 'Int'
        m = re.fullmatch(r'const (true|false)', op)
        if m: return m.group(1), 'Bool'
        m = re.fullmatch(r'const (?:[\w<>]+::)*([A-Z][A-Z0-9_]*)', op)
        if m and ('K_' + m.group(1)) in self.sort: return st['K_' + m.group(1)], 'Int'
        return None

    def havoc(self, st, loc):
        for c in self.comp:
            if c == loc or c.startswith(loc + '.'):
                st[c] = self.newvar(self.sort[c])

    def assign(self, s, st):
        before = dict(st)
        self._assign(s, st)
        for c in st:
            if st[c] is not before[c] and not re.fullmatch(r'h\d+', st[c]):
                self.informative.add(c)

    def _assign(self, s, st):
        m = re.match(r'(_\d+) = (.*);$', s)
        if not m:
            return
        dst, rv = m.group(1), m.group(2)
        tracked = dst in self.sort or any(c.startswith(dst + '.') for c in self.comp)
        if not tracked:
            return
        # Result values: only the discriminant is tracked
        if (dst + '.t') in self.sort and dst not in self.sort:
            m2 = re.fullmatch(r'(?:std::result::)?Result::<.*>::(Ok|Err)\(.*\)', rv)
            if m2:
                st[dst + '.t'] = '0' if m2.group(1) == 'Ok' else '1'
                return
            m2 = re.fullmatch(r'(?:copy |move )(_\d+)', rv)
            if m2 and (m2.group(1) + '.t') in self.sort:
                st[dst + '.t'] = st[m2.group(1) + '.t']
                return
            self.havoc(st, dst)
            return
        # aggregates
        m2 = re.fullmatch(r'std::ops::Range::<\w+> \{ start: (.*), end: (.*) \}', rv)
        if m2 and ((dst + '.s') in self.sort or (dst + '.e') in self.sort):
            a, b = self.operand(m2.group(1), st), self.operand(m2.group(2), st)
            if (dst + '.s') in self.sort: st[dst + '.s'] = a[0] if a else self.newvar('Int')
            if (dst + '.e') in self.sort: st[dst + '.e'] = b[0] if b else self.newvar('Int')
            return
        m2 = re.fullmatch(r'(?:copy |move )(_\d+)', rv)
        if m2 and (dst + '.s') in self.sort and (m2.group(1) + '.s') in self.sort:
            for q in ('.s', '.e'):
                if (dst + q) in self.sort: st[dst + q] = st[m2.group(1) + q] if (m2.group(1) + q) in self.sort else self.newvar('Int')
            return
        m2 = re.fullmatch(r'(AddWithOverflow|SubWithOverflow)\((.*), (.*)\)', rv)
        if m2 and (dst + '.v') in self.sort:
            a, b = self.operand(m2.group(2), st), self.operand(m2.group(3), st)
            if a and b:
                st[dst + '.v'] = '(%s %s %s)' % ('+' if m2.group(1)[0] == 'A' else '-', a[0], b[0])
                st[dst + '.o'] = 'false'   # overflow would panic (assert below), not return
            else:
                self.havoc(st, dst)
            return
        m2 = re.fullmatch(r'(Add|Sub|Lt|Le|Gt|Ge|Eq|Ne)\((.*), (.*)\)', rv)
        if m2 and dst in self.sort:
            a, b = self.operand(m2.group(2), st), self.operand(m2.group(3), st)
            if a and b and a[1] == b[1]:
                op = {'Add': '+', 'Sub': '-', 'Lt': '<', 'Le': '<=', 'Gt': '>', 'Ge': '>=', 'Eq': '=', 'Ne': 'distinct'}[m2.group(1)]
                st[dst] = '(%s %s %s)' % (op, a[0], b[0])
            else:
                st[dst] = self.newvar(self.sort[dst])
            return
        m2 = re.fullmatch(r'Not\((.*)\)', rv)
        if m2 and dst in self.sort:
            a = self.operand(m2.group(1), st)
            st[dst] = '(not %s)' % a[0] if a and a[1] == 'Bool' else self.newvar(self.sort[dst])
            return
        m2 = re.fullmatch(r'discriminant\((_\d+)\)', rv)
        if m2 and dst in self.sort:
            if (m2.group(1) + '.t') in self.sort:
                st[dst] = st[m2.group(1) + '.t']
            else:
                st[dst] = self.newvar('Int')
            return
        a = self.operand(rv, st)
        if a and dst in self.sort and a[1] == self.sort[dst]:
            st[dst] = a[0]
            return
        self.havoc(st, dst)

    def encode(self):
        f = self.f
        state_decl = ' '.join('(%s %s)' % (self.var(c), self.sort[c]) for c in self.comp)
        sorts = ' '.join(self.sort[c] for c in self.comp)
        preds = ['(declare-fun P_%s (%s) Bool)' % (bb, sorts) for bb in f.order]
        rules = []
        init = {c: self.newvar(self.sort[c]) for c in self.comp}
        init['exh'] = 'false'
        rules.append(('true', 'bb0', init))
        self.block_meta = {}
        for bb in f.order:
            sts = f.blocks[bb]
            st = {c: self.var(c) for c in self.comp}
            pre = '(P_%s %s)' % (bb, ' '.join(self.var(c) for c in self.comp))
            term = sts[-1] if sts else 'unreachable;'
            for s in sts[:-1]:
                self.assign(s, st)
            self.block_meta[bb] = sts
            # terminator
            t = term
            if t.startswith('goto -> '):
                rules.append((pre, t[8:].rstrip(';'), dict(st)))
            elif t.startswith('switchInt('):
                m = re.match(r'switchInt\((.*)\) -> \[(.*)\];', t)
                op = self.operand(m.group(1), st)
                targets = [x.strip().split(': ') for x in m.group(2).split(',')]
                # is the switched value the discriminant of an Option<i32> produced by Range::next ?
                is_poll = False
                dm = re.fullmatch(r'(?:copy |move )?(_\d+)', m.group(1).strip())
                if dm:
                    for s in sts[:-1]:
                        mm = re.match(re.escape(dm.group(1)) + r' = discriminant\((_\d+)\);', s)
                        if mm and (mm.group(1) + '.t') in self.sort: is_poll = True
                listed = []
                for val, tgt in targets:
                    st2 = dict(st)
                    if val == 'otherwise':
                        if op is None: g = 'true'
                        elif op[1] == 'Bool': g = op[0] if '0' in [v for v, _ in targets] else 'true'
                        else: g = '(and %s)' % ' '.join('(distinct %s %s)' % (op[0], v) for v in listed) if listed else 'true'
                    else:
                        listed.append(val)
                        if op is None: g = 'true'
                        elif op[1] == 'Bool': g = '(not %s)' % op[0] if val == '0' else op[0]
                        else: g = '(= %s %s)' % (op[0], val)
                        if is_poll:
                            st2['exh'] = 'true' if val == '0' else 'false'
                    rules.append(('(and %s %s)' % (pre, g), tgt, st2))
            elif t.startswith('assert('):
                m = re.match(r'assert\((!?)(.*?), .* -> \[success: (bb\d+)', t)
                tgt = m.group(3)
                rules.append((pre, tgt, dict(st)))
            elif t.startswith('drop('):
                m = re.search(r'return: (bb\d+)', t)
                rules.append((pre, m.group(1), dict(st)))
            elif t in ('return;', 'unreachable;', 'resume;') or t.startswith('resume') or t.startswith('unreachable'):
                pass
            else:
                # call
                m = re.match(r'(_\d+) = (.*) -> \[return: (bb\d+)', t)
                if m:
                    dst, call, tgt = m.group(1), m.group(2), m.group(3)
                    st2 = dict(st)
                    mm = re.match(r'<std::ops::Range<\w+> as Iterator>::next\((?:copy |move )?(_\d+)\)', call)
                    mi = re.match(r'<std::ops::Range<\w+> as IntoIterator>::into_iter\((?:copy |move )?(_\d+)\)', call)
                    if mm and mm.group(1) in self.refs and (dst + '.t') in self.sort:
                        r = self.refs[mm.group(1)]
                        s_ = st[r + '.s'] if (r + '.s') in st else self.newvar('Int')
                        e_ = st[r + '.e'] if (r + '.e') in st else self.newvar('Int')   # pruned bound: unknown
                        # Some branch
                        self.informative.update([dst + '.t', dst + '.v', r + '.s', r + '.e'])
                        a = dict(st); a[dst + '.t'] = '1'
                        if (dst + '.v') in self.sort: a[dst + '.v'] = s_
                        if (r + '.s') in self.sort: a[r + '.s'] = '(+ %s 1)' % s_
                        rules.append(('(and %s (< %s %s))' % (pre, s_, e_), tgt, a))
                        b = dict(st); b[dst + '.t'] = '0'
                        if (dst + '.v') in self.sort: b[dst + '.v'] = self.newvar('Int')
                        rules.append(('(and %s (>= %s %s))' % (pre, s_, e_), tgt, b))
                    elif mi and (dst + '.s') in self.sort and (mi.group(1) + '.s') in self.sort:
                        self.informative.update([dst + '.s', dst + '.e'])
                        for q in ('.s', '.e'):
                            if (dst + q) in self.sort: st2[dst + q] = st[mi.group(1) + q] if (mi.group(1) + q) in st else self.newvar('Int')
                        rules.append((pre, tgt, st2))
                    elif 'FromResidual' in call and (dst + '.t') in self.sort:
                        st2[dst + '.t'] = '1'
                        self.informative.add(dst + '.t')
                        rules.append((pre, tgt, st2))
                    else:
                        self.havoc(st2, dst)
                        # a callee that receives &mut to a tracked local may change it
                        for ref, loc in self.refs.items():
                            if re.search(r'\b' + ref + r'\b', call): self.havoc(st2, loc)
                        rules.append((pre, tgt, st2))
                # diverging calls: no successor
        self.rules = rules
        out = ['(set-logic HORN)'] + preds
        allvars = state_decl + ' ' + ' '.join('(%s %s)' % (n, s) for n, s in self.decls)
        for pre, tgt, st in rules:
            head = '(P_%s %s)' % (tgt, ' '.join(st[c] for c in self.comp))
            out.append('(assert (forall (%s) (=> %s %s)))' % (allvars, pre, head))
        self.smt_prefix = '\n'.join(out)
        self.allvars = allvars
        return self.smt_prefix

    def query_unreachable(self, bb, cond='true', timeout=120, z3bin='z3'):
        """Is `bb` (with extra condition on its entry state) unreachable?  returns ('unreachable'|'reachable'|'unknown', secs)"""
        q = self.smt_prefix + '\n(assert (forall (%s) (=> (and (P_%s %s) %s) false)))\n(check-sat)\n' % (
            self.allvars, bb, ' '.join(self.var(c) for c in self.comp), cond)
        path = os.path.join(MIRDIR, 'chc_%s_%s.smt2' % (re.sub(r'\W', '_', self.f.name)[:40], bb))
        open(path, 'w').write(q)
        t0 = time.time()
        p = subprocess.run([z3bin, '-T:%d' % timeout, path], stdout=subprocess.PIPE, stderr=subprocess.PIPE, text=True)
        dt = time.time() - t0
        o = p.stdout.strip()
        if '(error' in o: return 'unknown', dt, o
        if o.startswith('sat'): return 'unreachable', dt, o
        if o.startswith('unsat'): return 'reachable', dt, o
        return 'unknown', dt, o

    def find_blocks(self, pattern):
        return [bb for bb in self.f.order if any(re.search(pattern, s) for s in self.f.blocks[bb])]
