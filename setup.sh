#!/bin/bash
# offline setup: pre-build the tracer against /repo (path dependency) so that checks only re-link what changed
set -e
export CARGO_NET_OFFLINE=true
cd /verif/symtrace
cp /repo/Cargo.lock Cargo.lock
cargo build --release --target-dir /verif/.work/symtrace-target
cd /verif/native
cp /repo/Cargo.lock Cargo.lock
cargo build --release --target-dir /verif/.work/native-target
